#!/usr/bin/env python3
"""Regenerate the tables of DESIGN.md section 11 from seeded/*/meta.json and sensitivity/*.tsv.

Prints markdown; `--write` replaces the text between the markers
<!-- BEGIN GENERATED SECTION 11 --> and <!-- END GENERATED SECTION 11 --> in DESIGN.md.
"""
import glob, json, os, sys

ROOT = os.path.join(os.path.dirname(os.path.abspath(__file__)), "..")


def seeded_table():
    rows = []
    for mp in sorted(glob.glob(os.path.join(ROOT, "seeded", "*", "meta.json"))):
        m = json.load(open(mp))
        name = os.path.basename(os.path.dirname(mp))
        d = m["detection"]
        if d.get("caught_by_quick_check"):
            verdict = "caught" if d.get("caught_before_strengthening") else "caught after strengthening"
        else:
            verdict = "not caught"
        by = d.get("caught_by_property", m["property"])
        classes = ", ".join(c.split(".", 1)[1] if "." in c else c for c in d.get("violation_classes", [])[:3])
        if by != m["property"]:
            classes = f"(by the {by} check) " + classes
        rows.append((name, m["property"], m["change"], m["needs_to_manifest"], verdict, classes, d.get("note", "")))
    out = ["| id | property | change | needs, to manifest | quick check | violation classes |", "|---|---|---|---|---|---|"]
    for r in rows:
        note = f" — {r[6]}" if r[6] else ""
        out.append(f"| {r[0]} | {r[1]} | {r[2]} | {r[3]} | {r[4]}{note} | {r[5]} |")
    # per round
    def round_of(name):
        import re
        m = re.search(r"-r(\d+)m", name)
        return int(m.group(1)) if m else 1
    briefs = {1: "two changes each, free choice", 2: "three each: interactions, fault paths, sequences/boundaries", 3: "two each: told which kinds were already tried", 4: "two each: enumerate the clauses, break the two least likely to be exercised, from outside the feature's main function", 5: "three each, the unsteered brief of round 1", 6: "three each, unsteered again", 7: "two each: each change must hang on an option, mode or input form the statement does not mention", 8: "two each: one hanging on the environment, one on an extreme shape of the input", 9: "two each: needles in a haystack (a trigger that random inputs of ordinary size produce with probability below one in a million, yet plausible in real use)", 10: "two each, the unsteered brief of round 1 once more", 11: "two each: a plausible performance optimisation (cache, fast path, reused buffer, avoided system call) that is wrong in a corner", 12: "two each: regressions that show only in the real executables (told that the reviewer's harness calls find_main/xargs_main in-process with fakes)", 13: "up to two each: (a) two cooperating sites that each look fine alone (state whose meaning changes at one site, relied on at another only on a rare path), (b) a fault or event at a particular point of a multi-step sequence"}
    per = {}
    for r in rows:
        k = round_of(r[0])
        d = per.setdefault(k, [0, 0, 0, 0])
        d[0] += 1
        d[1] += r[4] == "caught"
        d[2] += r[4] == "caught after strengthening"
        d[3] += r[4].startswith("not caught")
    out.append("")
    out.append("| round | brief to the sub-agents | changes | caught on arrival | caught after strengthening | not caught |")
    out.append("|---|---|---|---|---|---|")
    for k in sorted(per):
        d = per[k]
        out.append(f"| {k} | {briefs.get(k, '')} | {d[0]} | {d[1]} | {d[2]} | {d[3]} |")
    n = len(rows)
    first = sum(1 for r in rows if r[4] == "caught")
    later = sum(1 for r in rows if r[4] == "caught after strengthening")
    missed = sum(1 for r in rows if r[4].startswith("not caught"))
    return "\n".join(out), (n, first, later, missed)


def sens_table():
    checks = {}
    p = os.path.join(ROOT, "sensitivity", "CHECKS.tsv")
    if os.path.exists(p):
        for l in open(p, errors="replace"):
            f = l.rstrip("\n").split("\t")
            if len(f) >= 2:
                checks[f[0]] = (f[1], f[3].strip() if len(f) > 3 else "")
    tests = {}
    p = os.path.join(ROOT, "sensitivity", "TESTS.tsv")
    if os.path.exists(p):
        for l in open(p, errors="replace"):
            f = l.rstrip("\n").split("\t")
            if len(f) >= 3:
                killed = [t for t in f[2].split(",") if t and t != "none" and t != "xargs_exec_with_signal"]
                tests[f[0]] = (f[1], killed)
    out = ["| mutation | compiles / repository suite | quick check | classes |", "|---|---|---|---|"]
    stats = {"total": 0, "caught": 0, "survive_suite": 0, "survive_suite_caught": 0}
    for d in sorted(glob.glob(os.path.join(ROOT, "sensitivity", "*", "*.diff"))):
        name = os.path.basename(os.path.dirname(d)) + "/" + os.path.basename(d)[:-5]
        c = checks.get(name, ("not run", ""))
        t = tests.get(name)
        if t is None:
            ts = "not run"
        elif t[0] != "yes":
            ts = "does not compile"
        elif t[1]:
            ts = "suite kills it (" + ", ".join(x.split("::")[-1] for x in t[1][:2]) + (", …" if len(t[1]) > 2 else "") + ")"
        else:
            ts = "suite passes"
        stats["total"] += 1
        if c[0] == "caught":
            stats["caught"] += 1
        if ts == "suite passes":
            stats["survive_suite"] += 1
            if c[0] == "caught":
                stats["survive_suite_caught"] += 1
        cl = ", ".join(x.split(".", 1)[1] for x in c[1].split()[:3] if "." in x)
        out.append(f"| {name} | {ts} | {c[0]} | {cl} |")
    return "\n".join(out), stats


def main():
    st, (n, first, later, missed) = seeded_table()
    se, stats = sens_table()
    text = f"""### 11.1 Changes seeded by independent sub-agents

Each change was written by a fresh sub-agent that was given only the text of one property and a
scratch git worktree of `/repo` (nothing from `/verif`), and asked for a change that compiles, passes
the repository's suite and needs something specific to manifest, with a demonstration. Every change
below was re-confirmed with `tools/seedverify.sh` in a scratch worktree (suite: 282 passed and only
the two baseline failures; demonstration fails with the change and passes without it) and is kept as
`seeded/<id>/` (patch.diff, demonstration, README.md, meta.json). `tools/seedrun.sh seeded/<id>`
applies it to `/repo`, runs the quick check and undoes it.

{n} changes: {first} caught by the quick check as it was when the change arrived, {later} caught after
the check was strengthened (what was added is in section 11.3), {missed} not caught.

{st}

### 11.2 Hand-written mutations (the "S" lists of section 4)

`tools/mkmut.py` writes them to `sensitivity/<ID>/<name>.diff`; `tools/senscheck.sh` points the quick
check of the property at each (in a scratch worktree and a scratch copy of `/verif`);
`tools/senstests.sh` runs the repository's suite on each (`xargs_exec_with_signal` is ignored there:
it fails on the unchanged tree too when run from a background shell, which ignores SIGINT).
{stats['total']} mutations, {stats['caught']} caught by the quick check; {stats['survive_suite']} of them pass the
repository's own suite, and {stats['survive_suite_caught']} of those are caught.

{se}
"""
    if "--write" in sys.argv:
        p = os.path.join(ROOT, "DESIGN.md")
        s = open(p).read()
        a = "<!-- BEGIN GENERATED SECTION 11 -->"
        b = "<!-- END GENERATED SECTION 11 -->"
        i, j = s.index(a) + len(a), s.index(b)
        s = s[:i] + "\n" + text + "\n" + s[j:]
        open(p, "w").write(s)
        print("DESIGN.md section 11 tables rewritten")
    else:
        print(text)


main()
