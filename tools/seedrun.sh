#!/bin/sh
# Point checks at a deliberately broken tree: apply a seeded change to /repo, run the quick
# (or $TIER) check of the given properties, undo the change. Evidence and replay files of
# these runs go to a scratch directory, never to /verif/evidence.
# usage: tools/seedrun.sh <dir-with-patch.diff | patch file> [ID ...]     (default ID: from meta.json)
here=$(cd "$(dirname "$0")/.." && pwd)
src=$1
shift
if [ -d "$src" ]; then patch="$src/patch.diff"; else patch="$src"; fi
[ -f "$patch" ] || { echo "no patch at $patch" >&2; exit 2; }
ids=$*
if [ -z "$ids" ] && [ -f "$(dirname "$patch")/meta.json" ]; then
    ids=$(python3 -c "import json,sys;print(json.load(open(sys.argv[1]))['property'])" "$(dirname "$patch")/meta.json")
fi
[ -n "$ids" ] || { echo "no property id" >&2; exit 2; }
tier=${TIER:-quick}
if [ -n "$(git -C /repo status --porcelain -- src Cargo.toml)" ]; then
    echo "/repo has uncommitted changes; refusing" >&2
    exit 2
fi
out=${FUSIM_OUT:-/dev/shm/fusim-seedrun.$$}
mkdir -p "$out"
cleanup() { git -C /repo checkout -- . ; }
trap cleanup EXIT INT TERM
git -C /repo apply "$patch" || { echo "patch does not apply" >&2; exit 2; }
rc=0
for id in $ids; do
    start=$(date +%s)
    res=$(FUSIM_OUT="$out" "$here/check" "$id" "$tier" 2>&1)
    st=$?
    end=$(date +%s)
    classes=$(echo "$res" | grep -a '^violation class=' | sed 's/^violation class=\([^ ]*\).*/\1/' | tr '\n' ' ')
    echo "seedrun $(basename "$(dirname "$patch")") $id $tier exit=$st $((end-start))s classes: $classes"
    if [ -n "$VERBOSE" ]; then echo "$res" | cut -c1-1500 | tail -30; fi
    [ $st -eq 1 ] || rc=1
done
[ -n "$KEEP_OUT" ] || rm -rf "$out"
exit $rc   # 0 = every listed check caught the change
