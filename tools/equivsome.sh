#!/bin/sh
# Re-run all eleven quick checks against every behaviour-preserving / open-case change
# (seeded-equivalent/*/) with the machinery as it is now, on scratch copies (see seedall.sh).
# (equivsome.sh: only the ids given as arguments) Output: seeded-equivalent/RESULTS.tsv  (<id> <exit codes per property> <classes>)  all 0 = quiet
here=$(cd "$(dirname "$0")/.." && pwd)
base=${EALL_DIR:-/tmp/eall}
mkdir -p "$base"
if [ ! -d "$base/repo" ]; then git -C /repo worktree add --detach "$base/repo" HEAD -q || exit 2; fi
mkdir -p "$base/verif"
rsync -a --delete --exclude target --exclude .git --exclude replays --exclude evidence "$here/" "$base/verif/"
sed -i "s|path = \"/repo\"|path = \"$base/repo\"|" "$base/verif/sim/Cargo.toml"
[ -d "$base/verif/sim/target" ] || cp -a "$here/sim/target" "$base/verif/sim/target" 2>/dev/null
out=${EOUT:-$here/seeded-equivalent/RESULTS-some.tsv}
: > "$base/RESULTS.tmp"
for id0 in "$@"; do d="$here/seeded-equivalent/$id0/"
    id=$(basename "$d")
    [ -f "$d/patch.diff" ] || continue
    commit=$(python3 -c "import json,sys;m=json.load(open(sys.argv[1]));print((m.get('base_commit','') or '').split(' ')[0])" "$d/meta.json")
    git -C "$base/repo" checkout -q -- .
    git -C "$base/repo" checkout -q --detach "${commit:-$(git -C /repo rev-parse HEAD)}"
    if ! git -C "$base/repo" apply "$d/patch.diff" 2>/dev/null; then echo "$id	patch-failed	" | tee -a "$base/RESULTS.tmp"; continue; fi
    codes=""; classes=""
    for p in C02 C04 C05 C06 C07 C08 C09 C10 C15 C19 C20; do
        res=$(FUSIM_ROOT="$base/verif" FUSIM_OUT="$base/out" "$base/verif/check" "$p" quick 2>&1)
        st=$?
        codes="$codes$p=$st "
        cl=$(echo "$res" | grep -a '^violation class=\|^HARNESS-ERROR' | cut -c1-160 | tr '\n' ';')
        classes="$classes$cl"
    done
    echo "$id	$codes	$classes" | tee -a "$base/RESULTS.tmp"
done
git -C "$base/repo" checkout -q -- .
cp "$base/RESULTS.tmp" "$out"
