#!/bin/sh
# Re-run the quick check of every seeded change (seeded/*/) with the machinery as it is now.
# Output: seeded/RESULTS.tsv  (<id> <property checked> <exit> <classes>)   exit 1 = caught
here=$(cd "$(dirname "$0")/.." && pwd)
out=$here/seeded/RESULTS.tsv
: > "$out.tmp"
for d in "$here"/seeded/*/; do
    id=$(basename "$d")
    prop=$(python3 -c "import json,sys;m=json.load(open(sys.argv[1]));print(m['detection'].get('caught_by_property', m['property']))" "$d/meta.json")
    line=$("$here/tools/seedrun.sh" "$d" "$prop" 2>&1 | grep -a "^seedrun" | tail -1)
    st=$(echo "$line" | sed 's/.*exit=\([0-9]*\).*/\1/')
    cl=$(echo "$line" | sed 's/.*classes: //')
    echo "$id	$prop	$st	$cl" | tee -a "$out.tmp"
done
mv "$out.tmp" "$out"
