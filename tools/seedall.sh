#!/bin/sh
# Re-run the quick check of every seeded change (seeded/*/) with the machinery as it is now, on
# scratch copies (a git worktree of /repo and a copy of /verif whose simulator depends on that
# worktree), so /repo and /verif/sim stay usable meanwhile.
# Output: seeded/RESULTS.tsv  (<id> <property checked> <exit> <classes>)   exit 1 = caught
here=$(cd "$(dirname "$0")/.." && pwd)
base=${SALL_DIR:-/tmp/sall}
mkdir -p "$base"
if [ ! -d "$base/repo" ]; then git -C /repo worktree add --detach "$base/repo" HEAD -q || exit 2; fi
git -C "$base/repo" checkout -q --detach "$(git -C /repo rev-parse HEAD)" && git -C "$base/repo" checkout -q -- .
mkdir -p "$base/verif"
rsync -a --delete --exclude target --exclude .git --exclude replays --exclude evidence "$here/" "$base/verif/"
sed -i "s|path = \"/repo\"|path = \"$base/repo\"|" "$base/verif/sim/Cargo.toml"
[ -d "$base/verif/sim/target" ] || cp -a "$here/sim/target" "$base/verif/sim/target" 2>/dev/null
out=$here/seeded/RESULTS.tsv
: > "$base/RESULTS.tmp"
for d in "$here"/seeded/*/; do
    id=$(basename "$d")
    prop=$(python3 -c "import json,sys;m=json.load(open(sys.argv[1]));print(m['detection'].get('caught_by_property', m['property']))" "$d/meta.json")
    git -C "$base/repo" checkout -q -- .
    if ! git -C "$base/repo" apply "$d/patch.diff" 2>/dev/null; then echo "$id	$prop	patch-failed	" | tee -a "$base/RESULTS.tmp"; continue; fi
    res=$(FUSIM_ROOT="$base/verif" "$base/verif/check" "$prop" quick 2>&1)
    st=$?
    cl=$(echo "$res" | grep -a '^violation class=' | sed 's/^violation class=\([^ ]*\).*/\1/' | tr '\n' ' ')
    echo "$id	$prop	$st	$cl" | tee -a "$base/RESULTS.tmp"
done
git -C "$base/repo" checkout -q -- .
cp "$base/RESULTS.tmp" "$out"
