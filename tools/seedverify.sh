#!/bin/sh
# Confirm a seeded change independently, in a scratch worktree (never /repo):
#   with the patch: the repository's suite gives the baseline result and the demonstration FAILS;
#   without it:     the demonstration PASSES.
# usage: tools/seedverify.sh <scratch-worktree> <dir with patch.diff and demo.sh|demo_test.rs>
wt=$1; d=$2
export CARGO_NET_OFFLINE=true
cd "$wt" || exit 2
git checkout -q -- . ; rm -f tests/demo_test.rs
demo() {
    if [ -f "$d/demo.sh" ]; then
        bash "$d/demo.sh" >/tmp/seedverify.demo.log 2>&1
    else
        cp "$d/demo_test.rs" tests/demo_test.rs
        cargo test --offline --test demo_test >/tmp/seedverify.demo.log 2>&1
        rc=$?; rm -f tests/demo_test.rs; return $rc
    fi
}
git apply "$d/patch.diff" || { echo "$(basename $d): patch does not apply"; exit 2; }
suite=$(cargo test --workspace --no-fail-fast --offline -j 8 2>&1)
failed=$(echo "$suite" | grep -a "^test .* FAILED$" | sed 's/^test \(.*\) \.\.\. FAILED$/\1/' | grep -v "get_or_create_file_test\|test_no_permission_file_error" | tr '\n' ',')
passed=$(echo "$suite" | grep -a "^test result" | sed 's/.* \([0-9]*\) passed.*/\1/' | paste -sd+ | bc)
demo; with=$?
git checkout -q -- .
demo; without=$?
git checkout -q -- . ; rm -f test_data/get_or_create_file_test
echo "$(basename $d): suite passed=$passed extra_failures=${failed:-none} demo_with_patch=$with demo_without=$without"
