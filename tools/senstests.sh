#!/bin/sh
# For every sensitivity mutation: does it compile and does the repository's own suite still pass?
# Runs in a scratch worktree (argument 1, default /tmp/mutwork), never in /repo.
# Output: /verif/sensitivity/TESTS.tsv   (<ID>/<name> <compiles> <failed tests other than the two baseline failures>)
here=$(cd "$(dirname "$0")/.." && pwd)
wt=${1:-/tmp/mutwork}
out=$here/sensitivity/TESTS.tsv
: > "$out.tmp"
export CARGO_NET_OFFLINE=true
for d in $(ls "$here"/sensitivity/*/*.diff | sort); do
    name=$(basename "$(dirname "$d")")/$(basename "$d" .diff)
    git -C "$wt" checkout -- . 
    git -C "$wt" apply "$d" || { echo "$name	patch-failed	-" >> "$out.tmp"; continue; }
    log=$(cd "$wt" && cargo test --workspace --no-fail-fast --offline -j 6 2>&1)
    if echo "$log" | grep -q "^error\(\[E[0-9]*\]\)\?:.*" && ! echo "$log" | grep -q "^test result"; then
        echo "$name	no	-" >> "$out.tmp"
    else
        failed=$(echo "$log" | grep "^test .* FAILED$" | sed 's/^test \(.*\) \.\.\. FAILED$/\1/' | grep -v "get_or_create_file_test\|test_no_permission_file_error" | tr '\n' ',')
        warn=$(echo "$log" | grep -c "^warning: unused\|^warning: unreachable")
        echo "$name	yes	${failed:-none}	warnings=$warn" >> "$out.tmp"
    fi
    tail -1 "$out.tmp"
done
git -C "$wt" checkout -- .
mv "$out.tmp" "$out"
