#!/usr/bin/env python3
"""Generate the hand-written sensitivity mutations (DESIGN.md section 4, "S" lists) as patch files.

Each mutation is a textual substitution in one file of the repository; the patch is produced with
`git diff` in a scratch worktree (argument 1, default /tmp/mutwork) and written to
/verif/sensitivity/<ID>/<name>.diff.  Nothing here touches /repo.
"""
import os, subprocess, sys

WT = sys.argv[1] if len(sys.argv) > 1 else "/tmp/mutwork"
OUT = os.path.join(os.path.dirname(os.path.abspath(__file__)), "..", "sensitivity")
X = "src/xargs/mod.rs"
E = "src/find/matchers/exec.rs"
F = "src/find/mod.rs"
T = "src/find/matchers/time.rs"
D = "src/find/matchers/delete.rs"
L = "src/find/matchers/logical_matchers.rs"
P = "src/find/matchers/printer.rs"
EN = "src/find/matchers/entry.rs"
M = "src/find/matchers/mod.rs"

# (property, name, file, old, new[, occurrence index])
MUTS = [
 # ---- C05
 ("C05", "split_off_loses_last_byte_of_chunk", X, "self.pending = pending.split_off(i + 1);", "self.pending = pending.split_off(if i + 2 == pending.len() && pending.len() > 2 { i + 2 } else { i + 1 });"),
 ("C05", "no_i_reset_after_refill", X, "                pending.resize(bytes_read, 0);\n                i = 0;\n", "                pending.resize(bytes_read, 0);\n                i = if bytes_read > 4000 { 1 } else { 0 };\n"),
 ("C05", "escape_reset_on_refill", X, "                pending.resize(bytes_read, 0);\n                i = 0;\n", "                pending.resize(bytes_read, 0);\n                i = 0;\n                if matches!(escape, Some(Escape::Slash)) {\n                    escape = None;\n                }\n"),
 ("C05", "eintr_is_error", X, "                        Err(e) if e.kind() == io::ErrorKind::Interrupted => continue,\n                        Err(e) => return Err(e),", "                        Err(e) => return Err(e),"),
 ("C05", "eintr_is_eof", X, "                        Err(e) if e.kind() == io::ErrorKind::Interrupted => continue,", "                        Err(e) if e.kind() == io::ErrorKind::Interrupted => break 0,"),
 ("C05", "newline_from_prev_byte", X, "                        terminated_by_newline = c == b'\\n';", "                        terminated_by_newline = c == b'\\n' || (i > 0 && pending[i - 1] == b'\\n');"),
 ("C05", "newline_lookahead", X, "                        terminated_by_newline = c == b'\\n';", "                        terminated_by_newline =\n                            c == b'\\n' || pending.get(i + 1).is_some_and(|n| *n == b'\\n');"),
 ("C05", "trim_two", X, "                    &buf[..buf.len() - 1]\n", "                    &buf[..buf.len().saturating_sub(if buf.len() > 4096 { 2 } else { 1 })]\n"),
 ("C05", "empty_field_not_skipped", X, "                    if buf.len() == 1 {", "                    if buf.len() == 1 && self.rd.buffer().len() > 0 {"),
 ("C05", "quote_closed_by_any_quote", X, "(Some(Escape::Quote(quote)), c) if c == *quote => escape = None,", "(Some(Escape::Quote(quote)), c) if c == *quote || (c == b'\"' && i == 0) => escape = None,"),
 ("C05", "unterminated_quote_ok", X, "                    if let Some(Escape::Quote(q)) = &escape {", "                    if let (Some(Escape::Quote(q)), true) = (&escape, result.len() < 64) {"),
 ("C05", "d_beats_0", X, "                > matches.indices_of(options::DELIMITER).unwrap().next_back()", "                < matches.indices_of(options::DELIMITER).unwrap().next_back()"),
 ("C05", "both_0_and_d_fall_back_to_whitespace", X, "        (Some(delimiter), true) => {\n            if matches", "        (Some(delimiter), true) if delimiter.is_ascii_punctuation() => None,\n        (Some(delimiter), true) => {\n            if matches"),
 # ---- C04
 ("C04", "chars_lt", X, "if can_be_passed && self.current_size + chars <= self.max_chars {", "if can_be_passed && self.current_size + chars < self.max_chars {"),
 ("C04", "args_le", X, "        if self.current_args < self.max_args {", "        if self.current_args <= self.max_args {"),
 ("C04", "no_terminator", X, "    // Include +1 for the null terminator.\n    s.as_bytes().len() + 1", "    // Include +1 for the null terminator.\n    s.as_bytes().len()"),
 ("C04", "soft_counts_as_line", X, "            if arg.kind == ArgumentKind::HardTerminated {\n                self.current_line += 1;", "            if arg.kind != ArgumentKind::Initial {\n                self.current_line += 1;"),
 ("C04", "lines_lt", X, "        if self.current_line <= self.max_lines {", "        if self.current_line < self.max_lines {"),
 ("C04", "arg_lost_at_boundary", X, "            current_builder = CommandBuilder::new(builder_options);\n            if let Err(ExhaustedCommandSpace { .. }) = current_builder.add_arg(arg) {\n                return Err(XargsError::ArgumentTooLarge);\n            }", "            current_builder = CommandBuilder::new(builder_options);\n            if out_of_chars && arg.arg.len() == 7 {\n                continue;\n            }\n            if let Err(ExhaustedCommandSpace { .. }) = current_builder.add_arg(arg) {\n                return Err(XargsError::ArgumentTooLarge);\n            }"),
 ("C04", "r_inverted", X, "    if !options.no_run_if_empty || have_pending_command {", "    if options.no_run_if_empty || have_pending_command {"),
 ("C04", "no_pending_guard", X, "            if have_pending_command {\n                result.combine(current_builder.execute()?);\n            }", "            result.combine(current_builder.execute()?);"),
 ("C04", "x_ignored", X, "                && options.exit_if_pass_char_limit\n", "                && !options.exit_if_pass_char_limit\n"),
 ("C04", "oversize_silently_dropped", X, "            if let Err(ExhaustedCommandSpace { .. }) = current_builder.add_arg(arg) {\n                return Err(XargsError::ArgumentTooLarge);\n            }", "            if let Err(ExhaustedCommandSpace { .. }) = current_builder.add_arg(arg) {\n                continue;\n            }"),
 ("C04", "initial_counted_as_arg", X, "            if arg.kind != ArgumentKind::Initial {\n                self.current_args += 1;", "            if arg.kind != ArgumentKind::Initial || arg.arg.len() > 20 {\n                self.current_args += 1;"),
 # ---- C19
 ("C19", "combine_overwrites", X, "        if matches!(*self, Self::Success) {\n            *self = other;\n        }", "        *self = other;"),
 ("C19", "swap_124_125", X, "                    CommandExecutionError::UrgentlyFailed => 124,\n                    CommandExecutionError::Killed { .. } => 125,", "                    CommandExecutionError::UrgentlyFailed => 125,\n                    CommandExecutionError::Killed { .. } => 124,"),
 ("C19", "swap_126_127", X, "                    CommandExecutionError::CannotRun(_) => 126,\n                    CommandExecutionError::NotFound => 127,", "                    CommandExecutionError::CannotRun(_) => 127,\n                    CommandExecutionError::NotFound => 126,"),
 ("C19", "continue_after_255_last", X, "    if !options.no_run_if_empty || have_pending_command {\n        result.combine(current_builder.execute()?);\n    }", "    if !options.no_run_if_empty || have_pending_command {\n        match current_builder.execute() {\n            Ok(r) => result.combine(r),\n            Err(CommandExecutionError::UrgentlyFailed) => result.combine(CommandResult::Failure),\n            Err(e) => return Err(e.into()),\n        }\n    }"),
 ("C19", "signal_is_failure", X, "                                Err(CommandExecutionError::Killed { signal })", "                                if signal == 13 { Ok(CommandResult::Failure) } else { Err(CommandExecutionError::Killed { signal }) }"),
 ("C19", "midloop_fatal_swallowed", X, "            if have_pending_command {\n                result.combine(current_builder.execute()?);\n            }", "            if have_pending_command {\n                match current_builder.execute() {\n                    Ok(r) => result.combine(r),\n                    Err(CommandExecutionError::Killed { .. }) => result.combine(CommandResult::Failure),\n                    Err(e) => return Err(e.into()),\n                }\n            }"),
 # ---- C20
 ("C20", "replacen_1", X, "OsString::from(arg_str.replace(replace_str, &replacement))", "OsString::from(arg_str.replacen(replace_str, &replacement, 2))"),
 ("C20", "append_in_replace_mode", X, "            command\n                .args(&initial_args)\n                .env_clear()", "            command\n                .args(&initial_args)\n                .args(self.extra_args.iter().filter(|a| a.len() > 6))\n                .env_clear()"),
 ("C20", "whitespace_reader_in_replace", X, "        (None, false) => replace.as_ref().map(|_| b'\\n'),", "        (None, false) => replace.as_ref().filter(|r| r.len() != 1).map(|_| b'\\n'),"),
 ("C20", "normalize_flip", X, "                if lines_index > args_index && lines_index > replace_index {", "                if lines_index > args_index && lines_index < replace_index {"),
 ("C20", "n1_conflict", X, "            (None | Some(1), None, Some(_)) => {", "            (None, None, Some(_)) => {"),
 ("C20", "empty_line_runs", X, "                    if buf.len() == 1 {\n", "                    if buf.len() == 1 && self.delimiter != b'\\n' {\n"),
 ("C20", "replace_only_first_arg", X, "                .map(|arg| {\n                    let arg_str = arg.to_string_lossy();\n                    OsString::from(arg_str.replace(replace_str, &replacement))\n                })", "                .enumerate()\n                .map(|(k, arg)| {\n                    let arg_str = arg.to_string_lossy();\n                    if k >= 3 {\n                        return OsString::from(arg_str.into_owned());\n                    }\n                    OsString::from(arg_str.replace(replace_str, &replacement))\n                })"),
 # ---- C06
 ("C06", "env_not_subtracted", X, "max_chars: arg_max.saturating_sub(ARG_HEADROOM + env_size + 2 * POINTER_SIZE),", "max_chars: arg_max.saturating_sub(ARG_HEADROOM + 2 * POINTER_SIZE),"),
 ("C06", "no_pointer_charge", X, "            per_arg_overhead: POINTER_SIZE,", "            per_arg_overhead: 0,"),
 ("C06", "no_env_pointer_charge", X, "count_osstr_chars_for_exec(var) + count_osstr_chars_for_exec(value) + POINTER_SIZE", "count_osstr_chars_for_exec(var) + count_osstr_chars_for_exec(value)"),
 ("C06", "no_per_arg_cap", X, "            max_arg_size: Some(MAX_SINGLE_ARG),", "            max_arg_size: None,"),
 ("C06", "per_arg_cap_off_by_one", X, "            Some(max) => arg_size <= max,", "            Some(max) => arg_size <= max + 1,"),
 ("C06", "no_system_limiter_with_s", X, "    limiters.add(MaxCharsCommandSizeLimiter::new_system(&env));", "    if options.max_chars.is_none() {\n        limiters.add(MaxCharsCommandSizeLimiter::new_system(&env));\n    }"),
 # ---- C07
 ("C07", "print_debug", P, "            file_info.path().to_string_lossy(),\n            self.delimiter\n", "            file_info.path().to_string_lossy().escape_debug(),\n            self.delimiter\n"),
 ("C07", "strip_dot_slash", P, "            file_info.path().to_string_lossy(),\n            self.delimiter\n", "            file_info.path().strip_prefix(\"./\").unwrap_or(file_info.path()).to_string_lossy(),\n            self.delimiter\n"),
 ("C07", "trim_in_byte_reader", X, "                    arg: bytes_to_os_string(bytes),", "                    arg: bytes_to_os_string(bytes.trim_ascii_end()),"),
 ("C05", "lossy_reencode", X, "    OsString::from_vec(bytes.to_vec())", "    OsString::from(String::from_utf8_lossy(bytes).into_owned())"),
 # ---- C08
 ("C08", "not_no_finished", L, "    fn finished(&self, matcher_io: &mut MatcherIO) {\n        self.submatcher.finished(matcher_io);\n    }", "    fn finished(&self, _matcher_io: &mut MatcherIO) {}"),
 ("C08", "or_no_finished_dir", L, "    fn finished_dir(&self, dir: &Path, matcher_io: &mut MatcherIO) {\n        for m in &self.submatchers {\n            m.finished_dir(dir, matcher_io);\n        }\n    }", "    fn finished_dir(&self, _dir: &Path, _matcher_io: &mut MatcherIO) {}", 1),
 ("C08", "no_finish_after_quit", F, "                if matcher_io.should_quit() {\n                    *quit = true;\n                    break;\n                }", "                if matcher_io.should_quit() {\n                    *quit = true;\n                    return ret;\n                }"),
 ("C08", "path_lost_at_batch_boundary", E, "            *command = self.new_command();\n            if let Err(e) = command.try_arg(&path_to_file) {", "            *command = self.new_command();\n            if self.args.len() > 2 {\n                return true;\n            }\n            if let Err(e) = command.try_arg(&path_to_file) {"),
 ("C08", "failed_status_ignored", E, "                if !status.success() {\n                    matcher_io.set_exit_code(1);\n                }", "                if status.code().is_none() {\n                    matcher_io.set_exit_code(1);\n                }"),
 ("C08", "spawn_error_ignored", E, "                writeln!(&mut stderr(), \"Failed to run {}: {}\", self.executable, e).unwrap();\n                matcher_io.set_exit_code(1);", "                writeln!(&mut stderr(), \"Failed to run {}: {}\", self.executable, e).unwrap();", ),
 ("C08", "exec_flushed_in_finished_dir", E, "        // Dispatch command for -execdir.\n        if self.exec_in_parent_dir {", "        // Dispatch command for -execdir.\n        if self.exec_in_parent_dir || dir.components().count() > 3 {"),
 ("C08", "execdir_wrong_cwd_on_full", E, "                    Some(parent) => {\n                        command.current_dir(parent);\n                    }\n                }\n            }\n            self.run_command(command, matcher_io);", "                    Some(parent) => {\n                        command.current_dir(parent.parent().filter(|p| !p.as_os_str().is_empty()).unwrap_or(parent));\n                    }\n                }\n            }\n            self.run_command(command, matcher_io);"),
 ("C08", "finished_only_last_root", F, "    matcher.finished(&mut matcher_io);\n", "    if !*quit {\n        matcher.finished(&mut matcher_io);\n    }\n"),
 # ---- C09
 ("C09", "splitn_2", E, "let parts = a.split(\"{}\").collect::<Vec<_>>();", "let parts = a.splitn(3, \"{}\").collect::<Vec<_>>();"),
 ("C09", "signal_is_success", E, "            Ok(status) => status.success(),\n", "            Ok(status) => status.success() || status.code().is_none(),\n"),
 ("C09", "execdir_full_path", E, "        Some(Component::Normal(f)) => Path::new(\".\").join(f),", "        Some(Component::Normal(f)) if path.components().count() < 4 => Path::new(\".\").join(f),"),
 ("C09", "execdir_cwd_is_path", E, "                Some(parent) => {\n                    command.current_dir(parent);\n                }", "                Some(parent) => {\n                    command.current_dir(if file_info.file_type().is_dir() { file_info.path() } else { parent });\n                }"),
 ("C09", "spawn_error_true", E, "                writeln!(&mut stderr(), \"Failed to run {}: {}\", self.executable, e).unwrap();\n                false\n", "                writeln!(&mut stderr(), \"Failed to run {}: {}\", self.executable, e).unwrap();\n                e.kind() == std::io::ErrorKind::PermissionDenied\n"),
 # ---- C10
 ("C10", "remove_dir_all", D, "            fs::remove_dir(entry.path())", "            fs::remove_dir_all(entry.path())"),
 ("C10", "dir_via_metadata", D, "        if entry.file_type().is_dir() && !entry.path_is_symlink() {", "        if entry.path().is_dir() {"),
 ("C10", "true_on_failure", D, "                writeln!(&mut stderr(), \"Failed to delete {path_str}: {e}\").unwrap();\n                false", "                writeln!(&mut stderr(), \"Failed to delete {path_str}: {e}\").unwrap();\n                e.kind() == io::ErrorKind::NotFound"),
 ("C10", "no_exit_code", D, "                matcher_io.set_exit_code(1);\n                writeln!(&mut stderr(), \"Failed to delete", "                if e.kind() != io::ErrorKind::PermissionDenied {\n                    matcher_io.set_exit_code(1);\n                }\n                writeln!(&mut stderr(), \"Failed to delete"),
 ("C10", "quit_on_failure", D, "                matcher_io.set_exit_code(1);\n                writeln!(&mut stderr(), \"Failed to delete", "                matcher_io.set_exit_code(1);\n                matcher_io.quit();\n                writeln!(&mut stderr(), \"Failed to delete"),
 # ---- C02
 ("C02", "no_ret_on_walk_error", F, "            Err(err) => {\n                ret = 1;\n                writeln!(&mut stderr(), \"Error: {err}\").unwrap();", "            Err(err) => {\n                writeln!(&mut stderr(), \"Error: {err}\").unwrap();"),
 ("C02", "break_on_walk_error", F, "                writeln!(&mut stderr(), \"Error: {err}\").unwrap();\n            }", "                writeln!(&mut stderr(), \"Error: {err}\").unwrap();\n                break;\n            }"),
 ("C02", "stop_at_failing_root", F, "        if dir_ret != 0 {\n            ret = dir_ret;\n        }\n        if quit {", "        if dir_ret != 0 {\n            ret = dir_ret;\n            break;\n        }\n        if quit {"),
 ("C02", "H_follows_everywhere", F, "        .follow_links(config.follow == Follow::Always)", "        .follow_links(config.follow != Follow::Never)"),
 ("C02", "dangling_not_recovered", EN, "            Err(e) if e.is_not_found() => {", "            Err(e) if e.is_not_found() && e.depth() != Some(0) => {"),
 ("C02", "no_follow_root_links", F, "        .follow_root_links(config.follow != Follow::Never);", "        .follow_root_links(config.follow == Follow::Always);"),
 ("C02", "mindepth_off_by_one", F, "if entry.depth() < config.min_depth || entry.depth() > config.max_depth {", "if entry.depth() < config.min_depth + usize::from(config.follow == Follow::Always && config.depth_first && config.min_depth > 1) || entry.depth() > config.max_depth {"),
 ("C02", "depth_filter_removed", F, "                if entry.depth() < config.min_depth || entry.depth() > config.max_depth {\n                    continue;\n                }\n", ""),
 # ---- C15
 ("C15", "round_days", T, "        let age_in_days = age_in_seconds / SECONDS_PER_DAY + negative_offset;", "        let age_in_days = (age_in_seconds + SECONDS_PER_DAY / 2) / SECONDS_PER_DAY + negative_offset;"),
 ("C15", "subsec_rounds_up", T, "        let age_in_seconds: i64 = age.as_secs() as i64 * if is_negative { -1 } else { 1 };\n        let age_in_minutes", "        let age_in_seconds: i64 = (age.as_secs() as i64 + i64::from(age.subsec_nanos() >= 500_000_000)) * if is_negative { -1 } else { 1 };\n        let age_in_minutes"),
 ("C15", "newer_non_strict", T, "        Ok(self\n            .given_modification_time\n            .duration_since(this_time)\n            .is_err())", "        Ok(this_time >= self.given_modification_time)"),
 ("C15", "newerxy_secs_only", T, "        Ok(self\n            .given_modification_time\n            .duration_since(x_option_time)\n            .is_err())", "        Ok(x_option_time\n            .duration_since(self.given_modification_time)\n            .is_ok_and(|d| d.as_secs() > 0 || d.subsec_micros() > 0))"),
 ("C15", "amin_reads_mtime", T, "            Self::Accessed => metadata.accessed(),\n            Self::Changed => metadata.changed(),\n            Self::Modified => metadata.modified(),", "            Self::Accessed => metadata.accessed().and(metadata.modified()),\n            Self::Changed => metadata.changed(),\n            Self::Modified => metadata.modified(),"),
 ("C15", "newerxy_swap", T, "            given_modification_time: y_option.get_file_time(&metadata)?,", "            given_modification_time: x_option.get_file_time(&metadata)?,"),
 ("C15", "wall_clock", T, "    } else {\n        matcher_io.now()\n    }", "    } else {\n        SystemTime::now()\n    }"),
 ("C15", "ctime_drops_nsec", T, "        let ctime_nsec = self.ctime_nsec() as u32;", "        let ctime_nsec = (self.ctime_nsec() as u32) / 1000 * 1000;"),
]

def sh(*a, **k):
    return subprocess.run(a, check=True, capture_output=True, text=True, **k).stdout

def main():
    sh("git", "-C", WT, "checkout", "--", ".")
    n = 0
    for m in MUTS:
        prop, name, path, old, new = m[:5]
        occ = m[5] if len(m) > 5 else None
        fp = os.path.join(WT, path)
        s = open(fp).read()
        cnt = s.count(old)
        if cnt == 0:
            print(f"!! {prop}/{name}: pattern not found"); continue
        if occ is None and cnt != 1:
            print(f"!! {prop}/{name}: pattern occurs {cnt} times"); continue
        if occ is None:
            t = s.replace(old, new)
        else:
            parts = s.split(old)
            t = old.join(parts[:occ+1]) + new + old.join(parts[occ+1:])
        open(fp, "w").write(t)
        d = sh("git", "-C", WT, "diff", "--", "src")
        sh("git", "-C", WT, "checkout", "--", ".")
        od = os.path.join(OUT, prop); os.makedirs(od, exist_ok=True)
        open(os.path.join(od, name + ".diff"), "w").write(d)
        n += 1
    print(n, "mutations written")

main()
