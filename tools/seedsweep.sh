#!/bin/sh
# Run every registered quick check under several base seeds; print anything that is not OK.
# usage: tools/seedsweep.sh "1 2 3" [ids...]
here=$(cd "$(dirname "$0")/.." && pwd)
seeds=${1:-"1 2 3 4 5"}
shift
ids=${*:-$("$here/sim/target/release/fusim" list 2>/dev/null)}
"$here/check" --build || exit 2
[ -n "$ids" ] || ids=$("$here/sim/target/release/fusim" list)
rc=0
for s in $seeds; do
  for id in $ids; do
    out=$(VERIF_SEED=$s "$here/check" "$id" quick 2>&1)
    st=$?
    if [ $st -ne 0 ]; then
      rc=1
      echo "=== seed=$s id=$id exit=$st"
      echo "$out" | grep -v "^  first" | cut -c1-1200 | tail -12
    else
      echo "seed=$s id=$id ok: $(echo "$out" | grep '^fusim: [0-9]' | cut -c1-100)"
    fi
  done
done
exit $rc
