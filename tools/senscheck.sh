#!/bin/sh
# Point the quick check of each property at each of its sensitivity mutations (applied to /repo, then undone).
# Output: /verif/sensitivity/CHECKS.tsv
here=$(cd "$(dirname "$0")/.." && pwd)
out=$here/sensitivity/CHECKS.tsv
sel=${1:-}
: > "$out.tmp"
for d in $(ls "$here"/sensitivity/*/*.diff | sort); do
    id=$(basename "$(dirname "$d")")
    case "$d" in *"$sel"*) ;; *) continue ;; esac
    "$here/tools/seedrun.sh" "$d" "$id" | tee -a "$out.tmp"
done
if [ -z "$sel" ]; then mv "$out.tmp" "$out"; else cat "$out.tmp" >> "$out"; rm "$out.tmp"; fi
"$here/check" --build
