#!/bin/sh
# Sensitivity run: point the quick check of each property at each of its hand-written mutations
# (sensitivity/<ID>/*.diff).  Works on scratch copies only — a git worktree of /repo and a copy of
# /verif whose simulator depends on that worktree — so /repo and /verif/sim stay usable meanwhile.
# usage: tools/senscheck.sh [filter]      output: sensitivity/CHECKS.tsv (full run) or stdout (filtered)
here=$(cd "$(dirname "$0")/.." && pwd)
sel=${1:-}
base=${SENS_DIR:-/tmp/sens}
mkdir -p "$base"
if [ ! -d "$base/repo" ]; then git -C /repo worktree add --detach "$base/repo" HEAD -q || exit 2; fi
git -C "$base/repo" checkout -q --detach "$(git -C /repo rev-parse HEAD)" && git -C "$base/repo" checkout -q -- .
mkdir -p "$base/verif"
rsync -a --delete --exclude target --exclude .git --exclude replays --exclude evidence "$here/" "$base/verif/"
sed -i "s|path = \"/repo\"|path = \"$base/repo\"|" "$base/verif/sim/Cargo.toml"
[ -d "$base/verif/sim/target" ] || cp -a "$here/sim/target" "$base/verif/sim/target" 2>/dev/null
out=$here/sensitivity/CHECKS.tsv
tmp=$base/CHECKS.tmp
: > "$tmp"
for d in $(ls "$here"/sensitivity/*/*.diff | sort); do
    id=$(basename "$(dirname "$d")")
    name=$id/$(basename "$d" .diff)
    case "$name" in *"$sel"*) ;; *) continue ;; esac
    git -C "$base/repo" checkout -q -- .
    git -C "$base/repo" apply "$d" || { echo "$name	patch-failed" | tee -a "$tmp"; continue; }
    start=$(date +%s)
    res=$(FUSIM_ROOT="$base/verif" "$base/verif/check" "$id" "${TIER:-quick}" 2>&1)
    st=$?
    end=$(date +%s)
    classes=$(echo "$res" | grep -a '^violation class=' | sed 's/^violation class=\([^ ]*\).*/\1/' | tr '\n' ' ')
    case $st in 1) verdict=caught ;; 0) verdict=MISSED ;; *) verdict="harness-error($st)" ;; esac
    echo "$name	$verdict	$((end-start))s	$classes" | tee -a "$tmp"
    [ $st -eq 2 ] && echo "$res" | tail -5
done
git -C "$base/repo" checkout -q -- .
if [ -z "$sel" ]; then cp "$tmp" "$out"; fi
