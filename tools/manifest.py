#!/usr/bin/env python3
"""Regenerates /verif/MANIFEST.json from the table below (run after adding a check)."""
import json, os

ROOT = os.path.dirname(os.path.dirname(os.path.abspath(__file__)))
TECH = "deterministic simulation with fault injection: "

CLAIMED = {
 "C02": dict(
  text="Seeded search over real trees on tmpfs (directories, files, fifos, links to files / directories inside and outside / ancestors / themselves / nothing / other links), 1-4 starting points in all spellings, -P/-H/-L/-follow, every (mindepth, maxdepth) pair incl. mindepth > maxdepth, -depth, -sorted, with find's stdout behind a simulated sink (short writes, EINTR). Fault batches: real EACCES from directories made unreadable/unsearchable under a dropped uid, and a scripted racing process removing / replacing / renaming / creating entries at exact record boundaries. Oracle: an independent lstat/stat/readdir reference walk on the same tree; exact multiset equality outside fault-affected subtrees, diagnostics and status as owed, termination within the step budget.",
  note="Trusted: the reference walker (120 lines), the kernel's file system as model of itself. Races finer than an action boundary are out of reach. Two walkdir defects are recorded as known findings.",
  tech=TECH+"real file system with injected permission faults and a scripted racing mutator at output-record boundaries; reference walk oracle"),
 "C04": dict(
  text="Seeded search over scenarios (argument sequence and its layout over input lines, initial arguments, every combination of -n/-L/-s/-x/-r with values at the interesting sizes, read plan, failing children, and in 10% of runs a real RLIMIT_STACK/environment that shrinks the system limiter's budget to a few hundred or thousand bytes). The real xargs_main runs in-process; the recorded history of invocations is checked against a greedy reference batcher clause by clause: conservation and order, unchanged command prefix, every limit, maximality, empty-input rule, own errors with diagnostic and exit 1. Sampling evidence, not proof.",
  note="Trusted: reference tokenizer and batcher (about 150 lines), the H1/H2 seams; fork/exec is stubbed (fabricated outcomes). Maximality under the operating-system budget is judged against a conservative accounting (see evidence assumptions).",
  tech=TECH+"simulated stdin schedule x child-outcome history x OS-budget knobs, history oracle against a reference batcher"),
 "C05": dict(
  text="Seeded search over (mode, input bytes, read plan) triples: the real xargs_main runs in-process with its stdin replaced by a simulated stream whose every read() result (chunk cut, short read, EINTR burst, terminal EIO) is dictated by the scenario; the delivered argument sequence and line structure are compared with a reference tokenizer written from the statement and, metamorphically, across all read plans of one input. Both tiers append an exhaustive sweep (all strings up to 4 / 6 symbols over a 7-symbol alphabet under every cut set). Evidence, not proof: a clean batch means no sampled schedule broke the property.",
  note="Trusted: the reference tokenizer (60 lines), the hook H1/H2 seams (stdin source and Command::status are stubs; everything between is real code), finite EINTR, sticky read errors.",
  tech=TECH+"seeded read-schedule (chunk cuts, short reads, EINTR, EIO) over an in-process xargs with simulated stdin; reference tokenizer + cross-schedule comparison"),
 "C06": dict(
  text="Seeded search over (argument count up to 600000, length distribution, RLIMIT_STACK, environment size and shape, -n/-s) with every invocation passed through to a real fork+execve of /bin/true under exactly the stack limit and environment the code under test computed against: the injected fault is the kernel answering E2BIG, so the judge of 'accepted by exec' is this kernel, not a model. The history must also show every argument delivered once in order, and an argument that cannot be passed at all reported with exit 1 and never handed to exec.",
  note="Trusted: the Linux per-argument and budget rules are used only to classify which single arguments cannot be passed at all (with a gray zone around the POSIX headroom); stdin is a stub; fork/exec/wait are real.",
  tech=TECH+"randomised OS-budget knobs (RLIMIT_STACK, environment) with real execve as the failing system call; history oracle over the spawn log"),
 "C07": dict(
  text="Two real programs joined by a simulated pipe in one process: find_main ... -print0 (or -print) writes through a sink that accepts short counts and raises EINTR; the accepted byte stream becomes the stdin of xargs_main -0 CMD through a reader that re-cuts it independently of the writer (1-byte, odd sizes, whole buffers, EINTR every k-th read), with optional -n and failing children. Trees are real, with names over arbitrary valid UTF-8 (blank-only, leading '-', newlines, quotes, backslashes, {}, $(), globs, multi-byte, up to 250 bytes). Oracle: the stream equals the concatenation over an independent reference walk, byte for byte; the arguments received over all invocations equal the record list exactly once and in order.",
  note="Trusted: the reference walker; the argument that a FIFO, lossless pipe between two sequential programs can only vary where the stream is cut, so sequential composition with all cuts under seed control covers every observable interleaving.",
  tech=TECH+"simulated pipe between in-process find and xargs: seeded short writes/EINTR on the writer side, independent re-chunking/EINTR on the reader side"),
 "C08": dict(
  text="Seeded search over trees (long names force multi-kilobyte paths), expressions placing `-exec/-execdir CMD FIXED {} +` plainly, in parentheses, under '!', on either side of -o, in a ',' list, before `-name X -quit`, with -depth, under fault sequences (any subset of invocations failing: exit != 0, signal, spawn error) and knobs that shrink argmax's real budget (RLIMIT_STACK 512 KiB plus ~100 KB of environment) so that small trees need several batches. Oracle over the interleaved history of output records and spawns: conservation and order of paths, one directory and ./basename per -execdir invocation with the right cwd, nothing pending at exit (incl. after -quit), OS acceptability (formula, confirmed by real execve), action always true, exit status non-zero iff an invocation failed.",
  note="Trusted: the marker-before-action observation of 'reached', the H3 seam; fork/exec is stubbed except for the E2BIG confirmation and the runs with real children.",
  tech=TECH+"scripted child-failure subsets x argument-budget knobs; history oracle over interleaved sink records and spawn requests"),
 "C09": dict(
  text="Seeded search over hostile file names and argument templates (0/1/several {} per argument, {} embedded in text, operator look-alikes) for -exec/-execdir ... ; with the child-outcome script as fault sequence (exit 0..255, signals, ENOENT/EACCES/ENOMEM/E2BIG) and, in a quarter of the runs, children that change the tree they run on (unlink the file, remove/replace the directory about to be entered, create siblings, rename) at scripted spawn instants. Oracle over the interleaved history: exactly one spawn per reached entry at that point, exact substituted argv (./basename + parent cwd for -execdir), truth marker iff exit 0, find's status unaffected, unrelated entries still visited exactly once after a mutation, no panic or hang.",
  note="Trusted: marker-based observation of 'reached', substitution reference (10 lines), the H2 seam (passed through to real children in one run in 25).",
  tech=TECH+"scripted child outcomes and tree-mutating children at spawn instants; history oracle over interleaved records and spawns"),
 "C10": dict(
  text="Twin sandboxes A and B with identical real trees (incl. an outside area and links into it): `find ROOTS -depth EXPR -print0` on A defines the expected set and order (itself checked against an independent reference post-order), `find ROOTS EXPR -print0 -delete -printf MARK` then runs on A, and a reference executor applies the statement's rule (lstat: real directory -> rmdir, else unlink) to B path by path, replaying the scripted racing mutations at the same instants. Injected faults: ENOTEMPTY, EACCES (parent 0555 under a dropped uid), ENOENT and refilled directories from a racing process acting between marker and action. Oracle: same entries in the same order, -delete true exactly where the reference removal succeeded, full snapshots of A and B equal (inside and outside the starting points), exit status and one diagnostic per failure.",
  note="Trusted: the kernel's unlink/rmdir as model of itself, the snapshot function, the reference post-order. Tests whose value the deletions change (-empty, -newer, -size, -links) are excluded; self-interfering -L/-H scenarios are detected and not judged. One walkdir defect is a known finding.",
  tech=TECH+"twin real trees, failing removals from permissions and a scripted racing mutator between marker and action; world-state conservation against a reference executor"),
 "C15": dict(
  text="The clock is the injected seam (Dependencies::now): seeded scenarios place `now` at timestamp + k*period + eps for period 60 s / 86400 s, k up to 20000 and eps in {-1 s, -1 ns, 0, +1 ns, +1 s, sub-second}, decades away from the wall clock so that any read of the real clock is visible; atime/mtime are set independently at nanosecond resolution, ctime-relative scenarios are anchored to the real ctime read back with lstat; all of -{a,c,m}time, -{a,c,m}min with N/+N/-N, -newer, -anewer, -cnewer and the nine -newerXY are judged by exact integer-nanosecond arithmetic on the lstat records.",
  note="Trusted: the reference arithmetic (20 lines), lstat. Only ages >= 0 and only regular files, as the statement is quantified.",
  tech=TECH+"injected simulated clock placed at period boundaries, real file timestamps set with utimensat; exact reference arithmetic"),
 "C19": dict(
  text="The child-outcome script is the fault sequence: seeded histories over exit 0 / 1..125 / 255, death by signal (with and without core), spawn errors (ENOENT, EACCES, ENOEXEC, ENOMEM, EAGAIN, E2BIG, ETXTBSY) at every position and length, plus xargs' own errors; the real classification and exit-status mapping code consumes fabricated wait statuses, and a calibration slice runs the same scripts with real child processes (simchild exiting / raising signals, a missing path, a non-executable file). Oracle: fold over the history (first fatal outcome stops the run; 123 iff some 1..125; own errors 1).",
  note="Trusted: ExitStatus::from_raw fabrication (cross-checked by the real-process slice), the fold (30 lines). Exit codes 126..254 are outside the statement and not generated.",
  tech=TECH+"scripted child-outcome histories (fault sequences) against an exit-status fold; real-process calibration slice"),
 "C20": dict(
  text="Seeded search over replace-mode scenarios (all spellings of the option, replacement strings incl. multi-byte and self-overlapping ones, initial arguments with 0/1/many/adjacent occurrences, lines with inner blanks / containing R / empty / without final newline, empty input, every order of -I/-n/-L) under random read plans and child outcomes; the invocation history must equal the reference (one run per non-empty line, whole line substituted everywhere, nothing appended, option given last decides).",
  note="Trusted: reference substitution and mode resolution (60 lines); lines restricted as the statement stipulates (no quotes, backslashes, leading/trailing blanks, valid UTF-8).",
  tech=TECH+"simulated stdin schedule x child-outcome history over xargs -I, history oracle against a reference substituter"),
}

XC = " Both tiers end with a binary cross-check: the first 150 (quick) / 600 (thorough) comparable scenarios also go through the find/xargs executables built from the working tree with the hooks feature off (real children; xargs' standard input in turn a pipe, a regular file, a regular file read from an offset, a directory that cannot be read; find's list of starting points also on its real standard input in pieces; a bare command name reachable only through the empty PATH component; two fixed scenarios with 250 KB of output; for C08 a reader of find's output that leaves after the first invocation; a third of the executable runs under an LD_PRELOAD shim that makes their own read(0)/write(1) return short counts and EINTR). A difference in exit status, child arguments, working directories or output bytes is a VIOLATION with a replay file; a difference in the mere presence of diagnostics is a harness error (exit 2)."
ENVX = " The process environment is a scenario dimension: variables no statement mentions (POSIXLY_CORRECT, TZ with daylight saving, LC_ALL, ...) and, for find, a terminal as descriptor 1."
EXT = {
 "C02": " Starting points also come through -files0-from (with a zero-length name, or without the final NUL); one run in 25 walks a chain 24-48 levels deep while the soft RLIMIT_NOFILE leaves 16-22 free descriptors; also depth options given twice, hundreds of unreadable entries or of starting points, a directory of more than 65535 entries." + ENVX + XC,
 "C04": " A small slice runs real children, which must receive what the seam recorded and must not be able to read xargs' own input stream; one run in 60 carries an argument 1-200 bytes short of the kernel's 128 KiB single-string limit." + ENVX + XC,
 "C05": " Also: both -0 and -d C in either order (the one given last applies), delimited fields beyond the 8 KiB BufReader, unclosed quotes followed by kilobytes of text, CR/VT/FF (compared across read plans only), the built-in echo judged on xargs' own output, the stream read from a real -a FILE (also one in /proc, whose size is reported as 0), and 20000-300000 consecutive separators on a thread with a small stack (a worker killed by the code under test is the violation <ID>.crash)." + ENVX + XC,
 "C06": " One run in six is replace mode (-I {}) with templates of 1-6 placeholders and lines sized so that a substituted argument lands at the per-argument limit or the whole substituted command line at the kernel budget; one in forty exceeds the kernel's 6 MiB ceiling under a large or unlimited stack limit. Where the accounting says an argument cannot be passed but xargs passed it, a real execve of that command line decides.",
 "C07": " A quarter of the runs use -H/-L/-follow; the starting point itself may be named by blanks only, contain a newline, a quote or be multi-byte, or come from -files0-from; a fifth of the runs use xargs -0 -I{}." + ENVX + XC,
 "C08": " Also -mindepth/-maxdepth, starting points with directory components or spelled DIR/.., a crowded directory below the top (several batches from inside one directory), a second {} + action, and file names that are not valid UTF-8. One run in 25 has real child processes (their own log of arguments and working directory, by device and inode, must agree with the seam's record and every invocation must start), two thirds of those from a working directory 2000-6000 bytes deep, beyond PATH_MAX." + ENVX + XC,
 "C09": " Also file names that are not valid UTF-8, starting points with directory components or spelled DIR/.., template arguments spelled like find's own options (-help, --version, -delete, ...), a second action, follow modes; when no test precedes the action every entry of an independent reference walk must reach it. One run in 25 has real child processes, two thirds of those from a working directory beyond PATH_MAX; one in 150 fills the command line at run time to 300-5200 bytes under what the system accepts (the kernel is asked first)." + ENVX + XC,
 "C10": " Also `( -delete ... -o -quit )` (the first failing removal ends the walk and must still give a non-zero status), names that are not valid UTF-8, find's working directory inside the tree it deletes (the first starting point reached as ../t; the reference removals run from the same directory with the same relative names), starting points spelled DIR/.., -follow written after the action, hundreds of failing removals under one starting point. Diagnostics are counted, never matched by wording." + ENVX,
 "C15": " A fifth of the runs carry a second time test in the same expression (often on the same reference file); ages and reference timestamps reach back before 1970. Every run also constructs the real StandardDependencies, lets the clock advance and requires now() to lie inside the construction interval and to be stable: 'now' is fixed when find starts." + ENVX,
 "C19": " Also replace mode, empty input (the single invocation's outcome is the status), a quote as the very last byte, a decoy file named like the command in the current directory (a command that cannot be found stays 127), exactly 256/512 failing invocations, an argument of exactly 131072 bytes, and a real child given as a bare name that is found on PATH behind a file of that name that cannot be executed." + ENVX + XC,
 "C20": " Also -s that every line fits by 0-5 bytes (each line must still run), -0/-d together with the replace option, a line that makes one argument 1-200 bytes short of the kernel's 128 KiB single-string limit, and a slice with real children, which must not be able to read xargs' own input stream." + ENVX + XC,
}

NA = {
 "C01":"pure function of (expression, entry): no schedule, clock, fault or multi-party history to simulate",
 "C03":"visit order is a pure function of (tree, expression); nothing for a simulator to schedule or fail",
 "C11":"statement about a parser over all argv; no fault or schedule enters (the no-panic-after-removal clause is exercised as a standing invariant inside C02/C08/C09/C10)",
 "C12":"equality of two languages (glob translation vs fnmatch); pure",
 "C13":"each test is a function of one stat record",
 "C14":"pure integer arithmetic on operand and size",
 "C16":"pure string rendering of (format, entry)",
 "C17":"equality of two regular languages; pure",
 "C18":"relational statement over argv and file contents; its error-isolation clause is exercised inside C02",
}
PENDING = {}

def main():
    checks = []
    for pid in sorted(CLAIMED):
        c = CLAIMED[pid]
        checks.append({
          "property_id": pid,
          "quick_cmd": f"./check {pid} quick",
          "thorough_cmd": f"./check {pid} thorough",
          "evidence_file": f"/verif/evidence/{pid}.json",
          "replay_cmd_template": f"./check {pid} --replay {{path}}",
          "engine": "fusim",
          "level_claimed": {"category": "exploration", "text": c["text"] + EXT.get(pid, ""), "design_ref": f"DESIGN.md section 4, {pid}"},
          "level_note": c["note"],
          "technique": c["tech"],
        })
    na = dict(NA)
    for k, v in PENDING.items():
        if k not in CLAIMED:
            na[k] = v
    hooks = [l.split()[0] for l in os.popen("git -C /repo log --format='%h %s' | grep 'verif hooks'").read().splitlines()]
    m = {
     "version": 1,
     "setup_cmd": "./check --build",
     "hooks": {
       "guard": "cargo feature verif_hooks (off by default)",
       "enable": "the simulator crate /verif/sim depends on findutils = { path = \"/repo\", features = [\"verif_hooks\"] }; ./check rebuilds it from /repo's working tree before every run",
       "baseline_off_cmd": "cd /repo && if cargo nextest --version >/dev/null 2>&1; then cargo nextest run --workspace --no-fail-fast --test-threads 8 --offline; else cargo test --workspace --no-fail-fast --offline; fi",
       "source_commits": hooks,
       "add_only": True,
     },
     "engines": [{"name": "fusim", "path": "/verif/sim", "serves_properties": sorted(CLAIMED),
                  "kind_free_text": "deterministic simulator: seeded scenario generator, in-process execution of xargs_main/find_main behind simulated stdin/stdout/clock/child-process seams with fault injection, reference-model and history oracles, scenario minimiser, exact replay"}],
     "checks": checks,
     "not_applicable": [{"property_id": k, "reason": v} for k, v in sorted(na.items())],
     "notes": "Exit codes: 0 held, 1 violation (VIOLATION line with replay file), 2 harness error. VERIF_SEED selects the base seed (default 20260928). See DESIGN.md.",
    }
    json.dump(m, open(os.path.join(ROOT, "MANIFEST.json"), "w"), indent=1)
    print("MANIFEST.json:", len(checks), "checks,", len(na), "not applicable")

if __name__ == "__main__":
    main()
