#!/bin/sh
# The quick checks against /repo at an older commit WITHOUT any patch: what they report there is
# what later "fix:" commits repaired. seeded-equivalent patches that only apply at that base
# (meta.json base_commit) are judged against this baseline: only classes beyond it would be
# false alarms. usage: tools/equivbase.sh <commit>...   output: seeded-equivalent/BASELINE-<commit>.tsv
here=$(cd "$(dirname "$0")/.." && pwd)
base=${EALL_DIR:-/tmp/eall}
mkdir -p "$base"
if [ ! -d "$base/repo" ]; then git -C /repo worktree add --detach "$base/repo" HEAD -q || exit 2; fi
mkdir -p "$base/verif"
rsync -a --delete --exclude target --exclude .git --exclude replays --exclude evidence "$here/" "$base/verif/"
sed -i "s|path = \"/repo\"|path = \"$base/repo\"|" "$base/verif/sim/Cargo.toml"
for commit in "$@"; do
    git -C "$base/repo" checkout -q -- .
    git -C "$base/repo" checkout -q --detach "$commit" || exit 2
    out="$here/seeded-equivalent/BASELINE-$commit.tsv"
    : > "$out"
    for p in C02 C04 C05 C06 C07 C08 C09 C10 C15 C19 C20; do
        res=$(FUSIM_ROOT="$base/verif" FUSIM_OUT="$base/out" "$base/verif/check" "$p" quick 2>&1)
        st=$?
        cl=$(echo "$res" | grep -a '^violation class=' | sed 's/^violation class=\([^ ]*\).*/\1/' | tr '\n' ' ')
        echo "$p	$st	$cl" | tee -a "$out"
    done
done
git -C "$base/repo" checkout -q -- .
git -C "$base/repo" checkout -q --detach "$(git -C /repo rev-parse HEAD)"
