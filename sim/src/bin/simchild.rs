//! Tiny real child for pass-through runs.
//!
//!   simchild LOG SCRIPT ARGS...
//!
//! Appends one record to LOG: the number of ARGS, each ARG as
//! "<len>:<bytes>", the working directory (path, and "DIR dev:ino"), how many bytes its standard input
//! still held ("STDIN n": a child must not be able to read its parent's
//! argument stream); then consumes the first line of
//! SCRIPT's remaining outcomes ("exit N" / "signal N") — the position is kept
//! in LOG's record count — and ends accordingly.
use std::io::Write;
use std::os::unix::ffi::OsStrExt;

fn main() {
    let args: Vec<std::ffi::OsString> = std::env::args_os().collect();
    if args.len() < 3 {
        std::process::exit(2);
    }
    let log = &args[1];
    let script = &args[2];
    let rest = &args[3..];
    let prior = std::fs::read(log).unwrap_or_default();
    let k = prior.windows(5).filter(|w| w == b"\nEND\n").count();
    let mut rec: Vec<u8> = Vec::new();
    rec.extend_from_slice(format!("ARGC {}\n", rest.len()).as_bytes());
    for a in rest {
        rec.extend_from_slice(format!("{}:", a.as_bytes().len()).as_bytes());
        rec.extend_from_slice(a.as_bytes());
        rec.push(b'\n');
    }
    let cwd = std::env::current_dir().map(|p| p.into_os_string()).unwrap_or_default();
    rec.extend_from_slice(format!("CWD {}:", cwd.as_bytes().len()).as_bytes());
    rec.extend_from_slice(cwd.as_bytes());
    // the working directory by identity too (getcwd fails beyond PATH_MAX)
    if let Ok(m) = std::fs::metadata(".") {
        use std::os::unix::fs::MetadataExt;
        rec.extend_from_slice(format!("\nDIR {}:{}", m.dev(), m.ino()).as_bytes());
    }
    // what is readable on fd 0 (the harness guarantees an end of file)
    let mut n = 0usize;
    {
        use std::io::Read;
        let mut buf = [0u8; 4096];
        let mut stdin = std::io::stdin();
        while n < (1 << 20) {
            match stdin.read(&mut buf) {
                Ok(0) | Err(_) => break,
                Ok(k) => n += k,
            }
        }
    }
    rec.extend_from_slice(format!("\nSTDIN {n}").as_bytes());
    rec.extend_from_slice(b"\nEND\n");
    if let Ok(mut f) = std::fs::OpenOptions::new().create(true).append(true).open(log) {
        let _ = f.write_all(&rec);
    }
    let script = std::fs::read_to_string(script).unwrap_or_default();
    let line = script.lines().nth(k).unwrap_or("exit 0");
    let mut it = line.split_whitespace();
    match (it.next(), it.next().and_then(|n| n.parse::<i32>().ok())) {
        (Some("exit"), Some(n)) => std::process::exit(n),
        (Some("signal"), Some(n)) => unsafe {
            libc::signal(n, libc::SIG_DFL);
            libc::raise(n);
            std::process::exit(99);
        },
        _ => std::process::exit(0),
    }
}
