//! Binary cross-check: the same scenario through the in-process seams and through the real
//! `find` / `xargs` executables built from /repo with the hooks feature OFF (real pipes, real
//! `simchild` children).  Guards against the seams themselves changing behaviour and covers the
//! two `main.rs` wrappers, which in-process runs bypass.  Real pipes cut the stream as they
//! please, so a disagreement is reported as a harness error (exit 2), never as a VIOLATION.

use std::io::{Read, Write};
use std::path::{Path, PathBuf};
use std::process::{Command, Stdio};

use crate::ctx::{Ctx, RunStatus};
use crate::find::{run_find_prebuilt, FindScenario};
use crate::tree;
use crate::world::{Outcome, ReadOp};
use crate::xargs::{parse_child_log, run_xargs_with, XargsScenario};

pub enum Xc {
    /// the scenario uses something only the simulator can do (fabricated spawn errors, read
    /// errors, injected clock, racing mutations, rlimit/environment knobs)
    NotComparable,
    Agree,
    /// something outside what the statements describe differs (presence of diagnostics, the
    /// harness could not run the executable): a harness error, never a VIOLATION
    Disagree(String),
    /// the executable's exit status, child arguments, working directories or output bytes are
    /// not what the in-process run (which the oracle accepted) produced: the shipped program
    /// breaks the property in a way the seams hide
    Differs(String),
}

fn script_of(outcomes: &[Outcome]) -> Option<String> {
    let mut s = String::new();
    for o in outcomes {
        match o {
            Outcome::Exit(c) => s.push_str(&format!("exit {c}\n")),
            Outcome::Signal(n, _) => s.push_str(&format!("signal {n}\n")),
            _ => return None,
        }
    }
    Some(s)
}

fn status_of(st: std::process::ExitStatus) -> RunStatus {
    use std::os::unix::process::ExitStatusExt;
    match st.code() {
        Some(c) => RunStatus::Exit(c),
        None => RunStatus::Panic(format!("killed by signal {:?}", st.signal())),
    }
}

fn base_env(c: &mut Command, ctx: &Ctx) {
    c.env_clear();
    for (k, v) in &ctx.base_env {
        c.env(k, v);
    }
}

/// File name of the LD_PRELOAD shim next to the executables (see sim/shim/fusim_shim.c).
pub const SHIM: &str = "fusim_shim.so";

/// In a third of the runs (chosen by `h`, a number derived from the scenario) the executable
/// gets a system-call seam of its own: its write(1) and read(0) return short counts and EINTR.
/// Nothing it prints, reads or runs may change for that.
fn shim_env(c: &mut Command, bins: &Path, h: usize) {
    let shim = bins.join(SHIM);
    if h % 3 != 0 || !shim.exists() {
        return;
    }
    let k = h / 3;
    c.env("LD_PRELOAD", &shim);
    c.env("FUSIM_SHIM_WRITE", [1usize, 3, 7, 100, 1000][k % 5].to_string());
    c.env("FUSIM_SHIM_READ", [1usize, 2, 13, 4095][(k / 5) % 4].to_string());
    if let Some(n) = [None, Some(2usize), Some(5)][(k / 20) % 3] {
        c.env("FUSIM_SHIM_WRITE_EINTR", n.to_string());
    }
    if let Some(n) = [None, Some(3usize), Some(7)][(k / 60) % 3] {
        c.env("FUSIM_SHIM_READ_EINTR", n.to_string());
    }
}

fn show_args(v: &[Vec<u8>]) -> String {
    v.iter().map(|a| format!("[{}]", crate::sys::show(&a[..a.len().min(60)]))).collect::<Vec<_>>().join(" ")
}

/// xargs: in-process (fabricated outcomes) versus the real executable running `simchild`.
pub fn xargs(sc: &XargsScenario, plan: &[ReadOp], ctx: &mut Ctx, bins: &Path) -> Xc {
    if sc.real.is_some() || sc.rlimit_stack.is_some() || sc.env.is_some() {
        return Xc::NotComparable;
    }
    if plan.iter().any(|o| matches!(o, ReadOp::Err(_))) {
        return Xc::NotComparable;
    }
    let Some(script) = script_of(&sc.outcomes) else {
        return Xc::NotComparable;
    };
    if sc.cmd.is_empty() || sc.echo_mode || sc.input.0.len() > 200_000 {
        return Xc::NotComparable;
    }
    // the real command line is longer than the placeholder: -s budgets would differ
    if sc.opts.iter().any(|o| matches!(o, crate::xargs::Opt::S(_) | crate::xargs::Opt::ArgFile)) {
        return Xc::NotComparable;
    }
    // what standard input is: a pipe, a regular file, a regular file whose offset is already
    // past bytes that somebody else consumed (`{ read header; xargs ...; } < file`), or something
    // that cannot be read at all (a directory: the first read fails, which is xargs' own error)
    let h = sc.input.0.len() + sc.cmd.len() + sc.opts.len() + plan.len();
    let stdin_kind = if h % 7 == 6 { 3 } else { h % 3 };
    let unreadable = [ReadOp::Err(libc::EISDIR)];
    let plan: &[ReadOp] = if stdin_kind == 3 { &unreadable } else { plan };
    let fake = run_xargs_with(sc, plan, ctx);
    if fake.log.spawns().len() > 2000 {
        // (tens of thousands of real child processes would take minutes)
        return Xc::NotComparable;
    }
    let dir = ctx.scratch.join("xc");
    crate::sys::wipe(&dir);
    let _ = std::fs::create_dir_all(&dir);
    let lp = dir.join("child.log");
    let sp = dir.join("child.script");
    let _ = std::fs::write(&sp, script);
    let mut cmd = vec![
        ctx.simchild.to_string_lossy().into_owned(),
        lp.to_string_lossy().into_owned(),
        sp.to_string_lossy().into_owned(),
    ];
    cmd.extend(sc.cmd.iter().skip(1).cloned());
    let argv = sc.argv_with(&cmd);
    const CONSUMED: &[u8] = b"consumed-before-xargs 'x\n";
    let mut c = Command::new(bins.join("xargs"));
    c.args(&argv[1..]).current_dir(&dir).stdout(Stdio::null()).stderr(Stdio::piped());
    if stdin_kind == 0 {
        c.stdin(Stdio::piped());
    } else if stdin_kind == 3 {
        match std::fs::File::open(&dir) {
            Ok(d) => {
                c.stdin(Stdio::from(d));
            }
            Err(e) => return Xc::Disagree(format!("cannot open a directory as standard input: {e}")),
        }
    } else {
        use std::io::{Seek, SeekFrom};
        let fp = dir.join("stdin.dat");
        let mut content = if stdin_kind == 2 { CONSUMED.to_vec() } else { vec![] };
        content.extend_from_slice(&sc.input.0);
        if std::fs::write(&fp, &content).is_err() {
            return Xc::Disagree("cannot write the stdin file".into());
        }
        let mut f = match std::fs::File::open(&fp) {
            Ok(f) => f,
            Err(e) => return Xc::Disagree(format!("cannot open the stdin file: {e}")),
        };
        if stdin_kind == 2 {
            let _ = f.seek(SeekFrom::Start(CONSUMED.len() as u64));
        }
        c.stdin(Stdio::from(f));
    }
    base_env(&mut c, ctx);
    for (k, v) in &sc.extra.ambient.env {
        c.env(k, v);
    }
    shim_env(&mut c, bins, h / 7 + sc.input.0.iter().map(|b| *b as usize).sum::<usize>());
    let mut child = match c.spawn() {
        Ok(c) => c,
        Err(e) => return Xc::Disagree(format!("cannot start {}: {e}", bins.join("xargs").display())),
    };
    // a pipe is fed along the plan's cut positions (the kernel may still coalesce)
    let writer = child.stdin.take().map(|mut stdin| {
        let data = sc.input.0.clone();
        let mut cuts: Vec<usize> = plan.iter().filter_map(|o| if let ReadOp::Cut(p) = o { Some((*p).min(data.len())) } else { None }).collect();
        cuts.push(data.len());
        std::thread::spawn(move || {
            let mut at = 0usize;
            for c in cuts {
                if c > at {
                    if stdin.write_all(&data[at..c]).is_err() {
                        return;
                    }
                    let _ = stdin.flush();
                    at = c;
                }
            }
        })
    });
    let mut err = Vec::new();
    let _ = child.stderr.take().unwrap().read_to_end(&mut err);
    let st = child.wait();
    if let Some(w) = writer {
        let _ = w.join();
    }
    let real_status = match st {
        Ok(s) => status_of(s),
        Err(e) => return Xc::Disagree(format!("wait failed: {e}")),
    };
    let real_log = parse_child_log(&std::fs::read(&lp).unwrap_or_default());
    let fake_args: Vec<Vec<Vec<u8>>> = fake.spawn_argvs().into_iter().map(|a| a.into_iter().skip(1).collect()).collect();
    let real_args: Vec<Vec<Vec<u8>>> = real_log.into_iter().map(|(a, _)| a).collect();
    let kind_name = ["a pipe", "a regular file", "a regular file read from an offset", "a directory (unreadable)"][stdin_kind];
    let ctxs = || format!("xargs {:?} (standard input: {kind_name}) input [{}]", &argv[1..argv.len().min(12)], crate::sys::show(&sc.input.0[..sc.input.0.len().min(80)]));
    if fake.status != real_status {
        return Xc::Differs(format!("{}: in-process status {:?}, executable {:?}; stderr of the executable: {}", ctxs(), fake.status, real_status, crate::sys::lossy(&err[..err.len().min(300)])));
    }
    if fake_args != real_args {
        let at = fake_args.iter().zip(&real_args).position(|(a, b)| a != b).unwrap_or(fake_args.len().min(real_args.len()));
        return Xc::Differs(format!(
            "{}: {} invocations in-process, {} by the executable; first difference at #{at}: {} vs {}",
            ctxs(),
            fake_args.len(),
            real_args.len(),
            fake_args.get(at).map(|a| show_args(a)).unwrap_or_default(),
            real_args.get(at).map(|a| show_args(a)).unwrap_or_default()
        ));
    }
    if fake.stderr.is_empty() != err.is_empty() {
        return Xc::Disagree(format!("{}: diagnostics differ: in-process [{}], executable [{}]", ctxs(), crate::sys::lossy(&fake.stderr[..fake.stderr.len().min(200)]), crate::sys::lossy(&err[..err.len().min(200)])));
    }
    Xc::Agree
}

pub struct FindReal {
    pub status: RunStatus,
    pub stdout: Vec<u8>,
    pub stderr: Vec<u8>,
    /// (args after LOG SCRIPT, cwd) per child
    pub children: Vec<(Vec<Vec<u8>>, Vec<u8>)>,
    pub root: PathBuf,
}

/// Run the real find executable on a fresh copy of the scenario's tree; every argument equal
/// to `cmd_token` is replaced by `simchild LOG SCRIPT`.
pub fn find_real(sc: &FindScenario, ctx: &mut Ctx, bins: &Path, sub: &str, cmd_token: &str) -> Result<FindReal, String> {
    let root = ctx.scratch.join(sub);
    let _ = std::env::set_current_dir(&ctx.scratch);
    // (`sub` may be PARENT/A: the parent is emptied too)
    match sub.split_once('/') {
        Some((parent, _)) => crate::sys::wipe(&ctx.scratch.join(parent)),
        None => crate::sys::wipe(&root),
    }
    std::fs::create_dir_all(&root).map_err(|e| e.to_string())?;
    tree::build(&root, &sc.tree).map_err(|e| format!("cannot build tree: {e}"))?;
    let dir = ctx.scratch.join(format!("{}.xc", sub.replace('/', "-")));
    crate::sys::wipe(&dir);
    let _ = std::fs::create_dir_all(&dir);
    let lp = dir.join("child.log");
    let sp = dir.join("child.script");
    let script = script_of(&sc.outcomes).ok_or("outcome not scriptable")?;
    let _ = std::fs::write(&sp, script);
    if let Some(list) = sc.starts_file_content() {
        let _ = std::fs::write(root.join(crate::find::STARTS_FILE), list);
    }
    // now and then the command is a bare name that only the empty component of PATH (the
    // current directory) leads to: -exec runs it from find's own directory
    let full = sc.full_argv();
    let leads_out = sc.tree.nodes.iter().any(|n| matches!(n, tree::Node::Symlink { target, .. } if target.contains("..")));
    let bare_cmd = (full.len() + sc.tree.nodes.len()) % 4 == 1 && full.iter().any(|a| a == cmd_token) && !full.iter().any(|a| a == "-execdir") && !leads_out;
    if bare_cmd {
        let _ = std::os::unix::fs::symlink(&ctx.simchild, root.join(crate::xargs::PATH_CMD));
    }
    let mut argv: Vec<String> = vec![];
    for a in &full {
        if bare_cmd && (a == cmd_token || *a == format!("{cmd_token}2")) {
            argv.push(crate::xargs::PATH_CMD.into());
            argv.push(lp.to_string_lossy().into_owned());
            argv.push(sp.to_string_lossy().into_owned());
        } else if a == cmd_token || *a == format!("{cmd_token}2") {
            argv.push(ctx.simchild.to_string_lossy().into_owned());
            argv.push(lp.to_string_lossy().into_owned());
            argv.push(sp.to_string_lossy().into_owned());
        } else {
            argv.push(a.clone());
        }
    }
    // a list of starting points may also arrive on the real standard input (`-files0-from -`),
    // written by its producer in pieces with pauses in between: every name must still count
    let list_on_stdin = match sc.starts_file_content() {
        Some(list) if (list.len() + argv.len()) % 2 == 0 && list.len() >= 2 => Some(list),
        _ => None,
    };
    if list_on_stdin.is_some() {
        for a in argv.iter_mut() {
            if a == crate::find::STARTS_FILE {
                *a = "-".into();
            }
        }
    }
    let mut c = Command::new(bins.join("find"));
    c.args(&argv).current_dir(&root).stdout(Stdio::piped()).stderr(Stdio::piped());
    c.stdin(if list_on_stdin.is_some() { Stdio::piped() } else { Stdio::null() });
    base_env(&mut c, ctx);
    for (k, v) in &sc.ambient.env {
        c.env(k, v);
    }
    if bare_cmd {
        c.env("PATH", "/usr/bin::/bin");
    }
    shim_env(&mut c, bins, full.iter().map(|a| a.len()).sum::<usize>() + sc.tree.nodes.len() * 7 + sc.tree.bulk.len());
    let mut child = c.spawn().map_err(|e| format!("cannot start {}: {e}", bins.join("find").display()))?;
    let writer = list_on_stdin.map(|list| {
        let mut stdin = child.stdin.take().unwrap();
        std::thread::spawn(move || {
            // after the first name, and once more in the middle of the rest
            let first = list.iter().position(|b| *b == 0).map(|p| p + 1).unwrap_or(list.len()).min(list.len());
            let mid = first + (list.len() - first) / 2;
            for piece in [&list[..first], &list[first..mid], &list[mid..]] {
                if piece.is_empty() {
                    continue;
                }
                if stdin.write_all(piece).is_err() {
                    return;
                }
                let _ = stdin.flush();
                std::thread::sleep(std::time::Duration::from_millis(25));
            }
        })
    });
    let out = child.wait_with_output().map_err(|e| format!("waiting for find: {e}"))?;
    if let Some(w) = writer {
        let _ = w.join();
    }
    let children = parse_child_log(&std::fs::read(&lp).unwrap_or_default());
    Ok(FindReal {
        status: status_of(out.status),
        stdout: out.stdout,
        stderr: out.stderr,
        children,
        root,
    })
}

/// The real find with a reader of its standard output that goes away as soon as the first
/// child has run (`find … | head -1`). Returns find's exit status and how many of the children
/// that ran were scripted to fail; `None` when no child ran before find ended.
pub fn find_real_reader_leaves(sc: &FindScenario, ctx: &mut Ctx, bins: &Path, cmd_token: &str) -> Result<Option<(RunStatus, usize)>, String> {
    use std::os::unix::io::AsRawFd;
    let root = ctx.scratch.join("P3").join("A");
    let _ = std::env::set_current_dir(&ctx.scratch);
    crate::sys::wipe(&ctx.scratch.join("P3"));
    std::fs::create_dir_all(&root).map_err(|e| e.to_string())?;
    tree::build(&root, &sc.tree).map_err(|e| format!("cannot build tree: {e}"))?;
    let dir = ctx.scratch.join("P3.xc");
    crate::sys::wipe(&dir);
    let _ = std::fs::create_dir_all(&dir);
    let lp = dir.join("child.log");
    let sp = dir.join("child.script");
    let _ = std::fs::write(&sp, script_of(&sc.outcomes).ok_or("outcome not scriptable")?);
    if let Some(list) = sc.starts_file_content() {
        let _ = std::fs::write(root.join(crate::find::STARTS_FILE), list);
    }
    let mut argv: Vec<String> = vec![];
    for a in &sc.full_argv() {
        if a == cmd_token || *a == format!("{cmd_token}2") {
            argv.push(ctx.simchild.to_string_lossy().into_owned());
            argv.push(lp.to_string_lossy().into_owned());
            argv.push(sp.to_string_lossy().into_owned());
        } else {
            argv.push(a.clone());
        }
    }
    let mut c = Command::new(bins.join("find"));
    c.args(&argv).current_dir(&root).stdin(Stdio::null()).stdout(Stdio::piped()).stderr(Stdio::null());
    base_env(&mut c, ctx);
    let mut child = c.spawn().map_err(|e| format!("cannot start find: {e}"))?;
    let mut pipe = child.stdout.take().unwrap();
    unsafe {
        let fd = pipe.as_raw_fd();
        let fl = libc::fcntl(fd, libc::F_GETFL);
        libc::fcntl(fd, libc::F_SETFL, fl | libc::O_NONBLOCK);
    }
    // read along until the first child has left its record, then go away
    let start = std::time::Instant::now();
    let mut buf = [0u8; 4096];
    let mut ended = None;
    loop {
        let _ = pipe.read(&mut buf);
        if std::fs::read(&lp).map(|d| d.windows(5).any(|w| w == b"\nEND\n")).unwrap_or(false) {
            break;
        }
        if let Ok(Some(st)) = child.try_wait() {
            ended = Some(st);
            break;
        }
        if start.elapsed() > std::time::Duration::from_secs(5) {
            break;
        }
        std::thread::sleep(std::time::Duration::from_micros(500));
    }
    drop(pipe);
    let st = match ended {
        Some(st) => st,
        None => child.wait().map_err(|e| e.to_string())?,
    };
    let recs = crate::xargs::parse_child_records(&std::fs::read(&lp).unwrap_or_default());
    if recs.is_empty() {
        return Ok(None);
    }
    let failed = (0..recs.len()).filter(|k| !matches!(sc.outcomes.get(*k), None | Some(Outcome::Exit(0)))).count();
    Ok(Some((status_of(st), failed)))
}

/// find: in-process (simulated sink and children) versus the real executable.
pub fn find(sc: &FindScenario, ctx: &mut Ctx, bins: &Path, cmd_token: &str) -> Xc {
    if !sc.mutations.is_empty() || sc.now_ns.is_some() || sc.rlimit_stack.is_some() || sc.env.is_some() {
        return Xc::NotComparable;
    }
    if script_of(&sc.outcomes).is_none() || sc.ambient.nofile_headroom.is_some() || sc.real_children || sc.long_cwd.is_some() || sc.cwd_sub.is_some() {
        return Xc::NotComparable;
    }
    // (tens of thousands of real child processes would take minutes)
    if sc.tree.bulk.iter().any(|b| b.count > 5000) && sc.argv.iter().any(|a| a == cmd_token) {
        return Xc::NotComparable;
    }
    // the two copies of the tree stand in parents of their own that hold nothing else: a link
    // that leads out of the tree (`../..`) under a follow mode must find the same things there
    let root = ctx.scratch.join("P1").join("A");
    let _ = std::env::set_current_dir(&ctx.scratch);
    crate::sys::wipe(&ctx.scratch.join("P1"));
    if std::fs::create_dir_all(&root).is_err() || tree::build(&root, &sc.tree).is_err() {
        return Xc::Disagree("cannot build tree".into());
    }
    let fake = run_find_prebuilt(sc, ctx, root.clone());
    let real = match find_real(sc, ctx, bins, "P2/A", cmd_token) {
        Ok(r) => r,
        Err(e) => return Xc::Disagree(e),
    };
    let ctxs = || format!("find {:?}", &sc.argv[..sc.argv.len().min(14)]);
    if fake.status != real.status {
        return Xc::Differs(format!("{}: in-process status {:?}, executable {:?}; stderr [{}] vs [{}]", ctxs(), fake.status, real.status, crate::sys::lossy(&fake.stderr[..fake.stderr.len().min(200)]), crate::sys::lossy(&real.stderr[..real.stderr.len().min(200)])));
    }
    if fake.log.sink != real.stdout {
        return Xc::Differs(format!(
            "{}: standard output differs: {} bytes in-process [{}], {} from the executable [{}]; stderr in-process [{}], executable [{}]",
            ctxs(),
            fake.log.sink.len(),
            crate::sys::show(&fake.log.sink[..fake.log.sink.len().min(400)]),
            real.stdout.len(),
            crate::sys::show(&real.stdout[..real.stdout.len().min(400)]),
            crate::sys::lossy(&fake.stderr[..fake.stderr.len().min(300)]),
            crate::sys::lossy(&real.stderr[..real.stderr.len().min(300)])
        ));
    }
    let fake_children: Vec<(Vec<Vec<u8>>, PathBuf)> = fake
        .log
        .spawns()
        .iter()
        .map(|(argv, cwd, _)| {
            let dir = match cwd {
                Some(c) => {
                    use std::os::unix::ffi::OsStrExt;
                    root.join(std::ffi::OsStr::from_bytes(&c.0))
                }
                None => root.clone(),
            };
            (argv.iter().skip(1).map(|b| b.0.clone()).collect(), std::fs::canonicalize(&dir).unwrap_or(dir))
        })
        .collect();
    if fake_children.len() != real.children.len() {
        return Xc::Differs(format!("{}: {} children in-process, {} by the executable", ctxs(), fake_children.len(), real.children.len()));
    }
    let x_root = std::fs::canonicalize(&real.root).unwrap_or(real.root.clone());
    let a_root = std::fs::canonicalize(&root).unwrap_or(root.clone());
    for (k, ((fa, fd), (ra, rd))) in fake_children.iter().zip(&real.children).enumerate() {
        if fa != ra {
            return Xc::Differs(format!("{}: child #{k} arguments differ: {} vs {}", ctxs(), show_args(fa), show_args(ra)));
        }
        // same directory relative to the two tree copies
        use std::os::unix::ffi::OsStrExt;
        let rel_f = fd.strip_prefix(&a_root).map(|p| p.as_os_str().as_bytes().to_vec()).unwrap_or_else(|_| fd.as_os_str().as_bytes().to_vec());
        let rdp = PathBuf::from(std::ffi::OsStr::from_bytes(rd));
        let rel_r = rdp.strip_prefix(&x_root).map(|p| p.as_os_str().as_bytes().to_vec()).unwrap_or_else(|_| rd.clone());
        if rel_f != rel_r {
            return Xc::Differs(format!("{}: child #{k} working directory differs: [{}] vs [{}]", ctxs(), crate::sys::show(&rel_f), crate::sys::show(&rel_r)));
        }
    }
    if fake.stderr.is_empty() != real.stderr.is_empty() {
        return Xc::Disagree(format!("{}: diagnostics differ: [{}] vs [{}]", ctxs(), crate::sys::lossy(&fake.stderr[..fake.stderr.len().min(200)]), crate::sys::lossy(&real.stderr[..real.stderr.len().min(200)])));
    }
    Xc::Agree
}

/// find START -print0 | xargs -0 simchild … : the two real executables joined by a real pipe;
/// returns the arguments the children received, in order, and the two exit statuses.
pub fn pipeline_real(find_sc: &FindScenario, xargs_opts: &[String], outcomes: &[Outcome], ctx: &mut Ctx, bins: &Path) -> Result<(Vec<Vec<u8>>, RunStatus, RunStatus), String> {
    let root = ctx.scratch.join("X");
    let _ = std::env::set_current_dir(&ctx.scratch);
    crate::sys::wipe(&root);
    std::fs::create_dir_all(&root).map_err(|e| e.to_string())?;
    tree::build(&root, &find_sc.tree).map_err(|e| format!("cannot build tree: {e}"))?;
    let dir = ctx.scratch.join("X.xc");
    crate::sys::wipe(&dir);
    let _ = std::fs::create_dir_all(&dir);
    let lp = dir.join("child.log");
    let sp = dir.join("child.script");
    let _ = std::fs::write(&sp, script_of(outcomes).ok_or("outcome not scriptable")?);
    let mut f = Command::new(bins.join("find"));
    f.args(find_sc.full_argv()).current_dir(&root).stdin(Stdio::null()).stdout(Stdio::piped()).stderr(Stdio::null());
    base_env(&mut f, ctx);
    let h = find_sc.tree.nodes.len() * 5 + find_sc.full_argv().iter().map(|a| a.len()).sum::<usize>() + find_sc.tree.bulk.len() * 3;
    shim_env(&mut f, bins, h);
    let mut fchild = f.spawn().map_err(|e| format!("cannot start find: {e}"))?;
    let pipe = fchild.stdout.take().unwrap();
    let mut x = Command::new(bins.join("xargs"));
    x.args(xargs_opts).arg(&ctx.simchild).arg(&lp).arg(&sp).arg("fixed").current_dir(&root).stdin(Stdio::from(pipe)).stdout(Stdio::null()).stderr(Stdio::null());
    base_env(&mut x, ctx);
    shim_env(&mut x, bins, h / 2 + 1);
    let xs = x.status().map_err(|e| format!("cannot start xargs: {e}"))?;
    let fs_ = fchild.wait().map_err(|e| e.to_string())?;
    let log = parse_child_log(&std::fs::read(&lp).unwrap_or_default());
    let mut got = vec![];
    for (args, _) in log {
        got.extend(args.into_iter().skip(1)); // drop "fixed"
    }
    Ok((got, status_of(fs_), status_of(xs)))
}
