//! History oracle shared by C04, C19 and C20: compares what xargs did (spawn
//! log, exit status, diagnostics) with the reference run, clause by clause.

use crate::ctx::RunStatus;
use crate::prop::Report;
use crate::sys::{lossy, show};
use crate::world::Outcome;
use crate::xargs::{cost, is_fatal, Config, Expect, Mode, TokSpec, XargsObs, XargsScenario};
use crate::xgen::describe_spawns;

pub struct Judge<'a> {
    pub prefix: &'a str,
    pub sc: &'a XargsScenario,
    pub cfg: &'a Config,
    pub spec: &'a TokSpec,
    pub exp: &'a Expect,
    /// the operating-system budget may close batches before -n/-L/-s do
    pub tight_system: bool,
    /// ARG_MAX and environment bytes in force during the run (tight runs)
    pub arg_max: u64,
    pub env_bytes: usize,
    pub env_count: usize,
}

impl Judge<'_> {
    fn fail(&self, rep: &mut Report, clause: &str, detail: String) {
        let ctx = format!(
            "opts {:?} cmd {:?} input [{}]{} outcomes {:?}: ",
            self.sc.opts,
            self.sc.cmd,
            show(&self.sc.input.0[..self.sc.input.0.len().min(160)]),
            if self.sc.input.0.len() > 160 { "…" } else { "" },
            &self.sc.outcomes[..self.sc.outcomes.len().min(12)],
        );
        rep.fail(format!("{}.{}", self.prefix, clause), ctx + &detail);
    }

    pub fn judge(&self, obs: &XargsObs, rep: &mut Report) {
        if let RunStatus::Panic(msg) = &obs.status {
            return self.fail(rep, "panic", format!("xargs panicked: {msg}"));
        }
        if obs.log.budget_exhausted {
            return self.fail(rep, "no-progress", "step budget exhausted".into());
        }
        let mut spawns = obs.spawn_argvs();
        if matches!(self.sc.real, Some(crate::xargs::RealKind::SimchildOnPath { .. })) {
            // who searches PATH - the library call or xargs itself - is not for the statements
            // to say: a program spelled as a path to the right, executable file is the command
            for argv in spawns.iter_mut() {
                if let Some(p) = argv.first_mut() {
                    let path = std::path::Path::new(crate::sys::os(p));
                    let same_name = path.file_name().map(|n| n == crate::xargs::PATH_CMD).unwrap_or(false);
                    let executable = std::fs::metadata(path).map(|m| {
                        use std::os::unix::fs::PermissionsExt;
                        m.is_file() && m.permissions().mode() & 0o111 != 0
                    });
                    if p.contains(&b'/') && same_name && executable.unwrap_or(false) {
                        *p = crate::xargs::PATH_CMD.as_bytes().to_vec();
                    }
                }
            }
        }
        let cmd: Vec<&[u8]> = obs.cmd.iter().map(|c| c.as_bytes()).collect();
        let ncmd = cmd.len();

        // every invocation begins with the unchanged command (and, in batch
        // mode, the unchanged initial arguments)
        for (k, argv) in spawns.iter().enumerate() {
            let keep = match self.cfg.mode {
                Mode::Batch => ncmd,
                Mode::Replace(_) => 1,
            };
            if argv.len() < keep || argv[..keep].iter().zip(&cmd).any(|(a, c)| a.as_slice() != *c) {
                return self.fail(
                    rep,
                    "command-changed",
                    format!(
                        "invocation #{k} does not begin with the command and initial arguments: {}",
                        describe_spawns(&[argv.clone()])
                    ),
                );
            }
        }

        // the outcome script as the run consumed it
        let outcome_at = |k: usize| self.sc.outcomes.get(k).cloned().unwrap_or(Outcome::Exit(0));

        if !self.tight_system || !matches!(self.cfg.mode, Mode::Batch) {
            self.judge_exact(obs, &spawns, rep);
        } else {
            self.judge_tight(obs, &spawns, ncmd, rep);
        }
        if rep.violation.is_some() {
            return;
        }

        // nothing runs after a fatal outcome, whatever else happened
        for k in 0..spawns.len() {
            if is_fatal(&outcome_at(k)).is_some() && k + 1 < spawns.len() {
                return self.fail(
                    rep,
                    "ran-after-fatal-outcome",
                    format!(
                        "invocation #{k} ended with {:?} but {} more invocation(s) followed",
                        outcome_at(k),
                        spawns.len() - k - 1
                    ),
                );
            }
        }

        // own errors come with a diagnostic
        if self.exp.own_error.is_some() && obs.stderr.is_empty() {
            self.fail(
                rep,
                "missing-diagnostic",
                format!("expected a diagnostic for {:?}, stderr is empty", self.exp.own_error),
            );
        }
    }

    fn judge_exact(&self, obs: &XargsObs, spawns: &[Vec<Vec<u8>>], rep: &mut Report) {
        let exp = self.exp;
        if let Some((alt_spawns, alt_exit, _)) = &exp.alt {
            if spawns == alt_spawns.as_slice() && spawns != exp.spawns.as_slice() {
                // the invocation being filled when the oversize argument arrived was not run
                rep.probe("pending_invocation_abandoned_at_own_error");
                if obs.status != RunStatus::Exit(*alt_exit) {
                    self.fail(rep, "exit-status", format!("expected exit status {alt_exit} but got {:?}", obs.status));
                }
                return;
            }
        }
        if spawns != exp.spawns.as_slice() {
            let ncmd = obs.cmd.len();
            let clause = match self.cfg.mode {
                Mode::Replace(_) => {
                    if spawns.len() != exp.spawns.len() {
                        "replace-invocation-count"
                    } else {
                        "replace-argv"
                    }
                }
                Mode::Batch => {
                    let flat = |s: &[Vec<Vec<u8>>]| -> Vec<Vec<u8>> {
                        s.iter()
                            .flat_map(|a| a[ncmd.min(a.len())..].iter().cloned())
                            .collect()
                    };
                    let of = flat(spawns);
                    let ef = flat(&exp.spawns);
                    if of == ef {
                        // same arguments, different boundaries
                        let mut clause = "batch-boundaries";
                        for (o, e) in spawns.iter().zip(&exp.spawns) {
                            if o.len() > e.len() {
                                clause = "limit-exceeded";
                                break;
                            }
                            if o.len() < e.len() {
                                clause = "not-maximal";
                                break;
                            }
                        }
                        if clause == "batch-boundaries" {
                            if spawns.len() > exp.spawns.len() {
                                clause = "extra-invocation";
                            } else {
                                clause = "missing-invocation";
                            }
                        }
                        clause
                    } else if of.len() < ef.len() && ef.starts_with(&of) {
                        if let Some(k) = spawns.len().checked_sub(1) {
                            let o = self.sc.outcomes.get(k).cloned().unwrap_or(Outcome::Exit(0));
                            if !matches!(o, Outcome::Exit(0)) && is_fatal(&o).is_none() {
                                "stopped-after-ordinary-failure"
                            } else {
                                "arguments-lost"
                            }
                        } else if ef.is_empty() {
                            "empty-input-run-missing"
                        } else {
                            "arguments-lost"
                        }
                    } else if of.len() > ef.len() && of.starts_with(&ef) {
                        if exp.own_error.is_some() {
                            "ran-past-own-error"
                        } else if ef.is_empty() && of.iter().all(|a| a.is_empty()) {
                            "spurious-empty-argument"
                        } else {
                            "ran-after-fatal-outcome-or-extra-arguments"
                        }
                    } else if ef.is_empty() && exp.spawns.is_empty() && of.is_empty() {
                        "empty-input-run-not-suppressed"
                    } else if exp.spawns.len() == 1 && ef.is_empty() && spawns.is_empty() {
                        "empty-input-run-missing"
                    } else {
                        "arguments-lost-duplicated-or-reordered"
                    }
                }
            };
            return self.fail(
                rep,
                clause,
                format!(
                    "expected {} invocation(s) {} but observed {} {}",
                    exp.spawns.len(),
                    describe_spawns(&exp.spawns),
                    spawns.len(),
                    describe_spawns(spawns)
                ),
            );
        }
        if obs.status != RunStatus::Exit(exp.exit) {
            self.fail(
                rep,
                "exit-status",
                format!(
                    "expected exit status {} (own error {:?}) but got {:?}; stderr: {}",
                    exp.exit,
                    exp.own_error,
                    obs.status,
                    lossy(&obs.stderr[..obs.stderr.len().min(300)])
                ),
            );
        }
    }

    /// Batch mode with a tiny operating-system budget: the explicit limits
    /// must hold exactly, and a batch may close early only when the most
    /// conservative plausible accounting of the system budget says the next
    /// argument would not fit.
    fn judge_tight(&self, obs: &XargsObs, spawns: &[Vec<Vec<u8>>], ncmd: usize, rep: &mut Report) {
        let toks = &self.spec.toks;
        // expected number of tokens delivered under the outcome script: all of
        // them unless a fatal outcome stops the run
        let mut delivered: Vec<Vec<u8>> = vec![];
        let mut ranges: Vec<(usize, usize)> = vec![];
        for argv in spawns {
            let a = delivered.len();
            delivered.extend(argv[ncmd..].iter().cloned());
            ranges.push((a, delivered.len()));
        }
        let want: Vec<&Vec<u8>> = toks.iter().map(|t| &t.bytes).collect();
        if delivered.len() > want.len() || delivered.iter().zip(&want).any(|(a, b)| a != *b) {
            return self.fail(
                rep,
                "arguments-lost-duplicated-or-reordered",
                format!("delivered arguments are not a prefix of the input arguments: {}", describe_spawns(spawns)),
            );
        }
        let mut fatal = None;
        let mut any_fail = false;
        for k in 0..spawns.len() {
            let o = self.sc.outcomes.get(k).cloned().unwrap_or(Outcome::Exit(0));
            if let Some(st) = is_fatal(&o) {
                fatal = Some(st);
                break;
            }
            if !matches!(o, Outcome::Exit(0)) {
                any_fail = true;
            }
        }
        // xargs' own errors as the explicit limits prescribe them (the system
        // budget moves batch boundaries, not the point where an argument
        // cannot fit under -s)
        if let Some(own) = self.exp.own_error {
            let upto = self.exp.ranges.last().map(|r| r.1).unwrap_or(0);
            // the invocation being filled when the error is met may or may not run first
            let at_least = self.exp.alt.as_ref().map(|a| a.2).unwrap_or(upto);
            if fatal.is_none() {
                if delivered.len() > upto || delivered.len() < at_least {
                    return self.fail(
                        rep,
                        "own-error-delivery",
                        format!("{own}: expected the {upto} argument(s) before the error to be delivered, got {}", delivered.len()),
                    );
                }
                if obs.status != RunStatus::Exit(1) {
                    return self.fail(
                        rep,
                        "exit-status",
                        format!("{own}: expected exit status 1 but got {:?}", obs.status),
                    );
                }
            }
        } else if fatal.is_none() && delivered.len() != want.len() {
            return self.fail(
                rep,
                "arguments-lost",
                format!("{} of {} arguments delivered", delivered.len(), want.len()),
            );
        }
        if toks.is_empty() && self.exp.own_error.is_none() {
            let expect_runs = if self.cfg.r { 0 } else { 1 };
            if spawns.len() != expect_runs {
                return self.fail(
                    rep,
                    "empty-input-run",
                    format!("empty input: expected {expect_runs} invocation(s), got {}", spawns.len()),
                );
            }
        }
        let base: usize = obs.cmd.iter().map(|c| cost(c.as_bytes())).sum();
        let limit = self.arg_max as i64 - 2048;
        for (k, (a, b)) in ranges.iter().enumerate() {
            if a == b && !toks.is_empty() {
                return self.fail(rep, "empty-invocation", format!("invocation #{k} carries no argument"));
            }
            let batch = &toks[*a..*b];
            let n = batch.len();
            let lines_before_last = batch[..n.saturating_sub(1)].iter().filter(|t| t.hard).count();
            let chars: usize = base + batch.iter().map(|t| cost(&t.bytes)).sum::<usize>();
            if self.cfg.n.map_or(false, |m| n > m)
                || self.cfg.l.map_or(false, |m| lines_before_last >= m)
                || self.cfg.s.map_or(false, |m| chars > m)
            {
                return self.fail(
                    rep,
                    "limit-exceeded",
                    format!("invocation #{k} has {n} arguments, {chars} chars: {}", describe_spawns(&[spawns[k].clone()])),
                );
            }
            // maximality: why was the next argument held back?
            if *b < toks.len() && (k + 1 < ranges.len()) {
                let next = &toks[*b];
                let lines = batch.iter().filter(|t| t.hard).count();
                let by_n = self.cfg.n.map_or(false, |m| n >= m);
                let by_l = self.cfg.l.map_or(false, |m| lines >= m);
                let by_s = self.cfg.s.map_or(false, |m| chars + cost(&next.bytes) > m);
                let conservative: i64 = (obs.cmd.len() + n + 1) as i64 * 8
                    + (chars + cost(&next.bytes)) as i64
                    + self.env_bytes as i64
                    + 8 * (self.env_count as i64 + 2)
                    + 4096;
                let by_sys = conservative > limit;
                if by_sys && !(by_n || by_l || by_s) {
                    rep.probe("batch_closed_by_system_budget");
                }
                if !(by_n || by_l || by_s || by_sys) {
                    return self.fail(
                        rep,
                        "not-maximal",
                        format!(
                            "invocation #{k} ({n} arguments, {chars} chars) stopped before [{}] although no limit would be broken (ARG_MAX {} env {} bytes)",
                            show(&next.bytes[..next.bytes.len().min(40)]),
                            self.arg_max,
                            self.env_bytes
                        ),
                    );
                }
            }
        }
        let exit = fatal.unwrap_or(if self.exp.own_error.is_some() {
            1
        } else if any_fail {
            123
        } else {
            0
        });
        if obs.status != RunStatus::Exit(exit) {
            self.fail(
                rep,
                "exit-status",
                format!("expected exit status {exit} but got {:?}; stderr: {}", obs.status, lossy(&obs.stderr[..obs.stderr.len().min(300)])),
            );
        }
    }

    /// Pass-through mode: what the real children logged must equal what the
    /// seam recorded.
    pub fn judge_child_log(&self, obs: &XargsObs, rep: &mut Report) {
        let Some(clog) = &obs.child_log else { return };
        if let Some(k) = obs.child_stdin.iter().position(|n| *n > 0) {
            self.fail(
                rep,
                "child-can-read-the-argument-stream",
                format!("child #{k} could read {} bytes from its standard input: it shares xargs' own input stream and can swallow arguments", obs.child_stdin[k]),
            );
            return;
        }
        let spawns = obs.spawn_argvs();
        let seam: Vec<Vec<Vec<u8>>> = spawns.iter().map(|a| a[3.min(a.len())..].to_vec()).collect();
        let real: Vec<Vec<Vec<u8>>> = clog.iter().map(|(a, _)| a.clone()).collect();
        if seam != real {
            self.fail(
                rep,
                "seam-differs-from-real-child",
                format!(
                    "the seam recorded {} but the real children received {}",
                    describe_spawns(&seam),
                    describe_spawns(&real)
                ),
            );
        }
    }
}
