//! Generators and helpers shared by the xargs properties (C04, C05, C19, C20).

use crate::prop::Report;
use crate::rng::{bucket, Rng};
use crate::world::{Event, Log, ReadGot, ReadOp};
use crate::xargs::XargsObs;

pub const MB2: &[u8] = "\u{e9}".as_bytes(); // 2-byte UTF-8
pub const MB4: &[u8] = "\u{1F600}".as_bytes(); // 4-byte UTF-8
/// multi-byte characters whose continuation bytes are 0xA0 / 0x85 (NBSP and NEL when read as
/// Latin-1): a byte-wise "is this white space" test must not cut them
pub const MB_A0: &[u8] = "\u{e0}".as_bytes(); // C3 A0
pub const MB_85: &[u8] = "\u{405}".as_bytes(); // D0 85
pub const MB_2005: &[u8] = "\u{2005}".as_bytes(); // E2 80 85

/// Tokenizer state *before* each byte of a default-mode input:
/// 0 normal, 1 inside quotes, 2 right after an unquoted backslash.
pub fn default_states(input: &[u8]) -> Vec<u8> {
    let mut st = Vec::with_capacity(input.len() + 1);
    let mut quote: Option<u8> = None;
    let mut esc = false;
    for &c in input {
        st.push(if esc {
            2
        } else if quote.is_some() {
            1
        } else {
            0
        });
        if esc {
            esc = false;
        } else if let Some(q) = quote {
            if c == q {
                quote = None;
            }
        } else if c == b'\'' || c == b'"' {
            quote = Some(c);
        } else if c == b'\\' {
            esc = true;
        }
    }
    st.push(if esc {
        2
    } else if quote.is_some() {
        1
    } else {
        0
    });
    st
}

pub fn is_utf8_continuation(b: u8) -> bool {
    b & 0xC0 == 0x80
}

/// A word for default-mode input: plain letters, multi-byte, sometimes bytes
/// that are not valid UTF-8.
fn gen_plain(rng: &mut Rng, out: &mut Vec<u8>, allow_invalid: bool) {
    let n = rng.small(1, 6);
    for _ in 0..n {
        match rng.weighted(&[10, 10, 2, 2, 1, if allow_invalid { 1 } else { 0 }]) {
            0 => out.push(b'a'),
            1 => out.push(b'b'),
            2 => out.extend_from_slice(*rng.pick(&[MB2, MB2, MB_A0, MB_85])),
            3 => out.extend_from_slice(*rng.pick(&[MB4, MB4, MB_2005])),
            4 => out.push(b'-'),
            _ => out.push(*rng.pick(&[0xffu8, 0x80, 0xc3, 0xf0])),
        }
    }
}

#[derive(Clone, Copy)]
pub struct DefaultInputCfg {
    pub allow_quotes: bool,
    pub allow_backslash: bool,
    pub allow_invalid_utf8: bool,
    pub allow_unterminated: bool,
    pub allow_odd: bool,
    pub trailing_blanks: bool,
}

impl DefaultInputCfg {
    pub fn full() -> Self {
        DefaultInputCfg {
            allow_quotes: true,
            allow_backslash: true,
            allow_invalid_utf8: true,
            allow_unterminated: true,
            allow_odd: true,
            trailing_blanks: true,
        }
    }
    pub fn plain() -> Self {
        DefaultInputCfg {
            allow_quotes: false,
            allow_backslash: false,
            allow_invalid_utf8: false,
            allow_unterminated: false,
            allow_odd: false,
            trailing_blanks: true,
        }
    }
}

fn gen_separator(rng: &mut Rng, out: &mut Vec<u8>) {
    let n = rng.small(1, 3);
    for _ in 0..n {
        out.push(*rng.pick(&[b' ', b' ', b'\n', b'\n', b'\t']));
    }
}

/// Default-mode input made of structured pieces.
pub fn gen_default_input(rng: &mut Rng, ntok: usize, cfg: DefaultInputCfg) -> Vec<u8> {
    let mut out = Vec::new();
    if rng.chance(1, 4) {
        gen_separator(rng, &mut out);
    }
    for t in 0..ntok {
        // a token is 1..3 adjacent pieces
        let pieces = rng.small(1, 3);
        for _ in 0..pieces {
            let kind = rng.weighted(&[
                12,
                if cfg.allow_quotes { 4 } else { 0 },
                if cfg.allow_quotes { 4 } else { 0 },
                if cfg.allow_backslash { 4 } else { 0 },
                if cfg.allow_quotes && cfg.allow_odd { 1 } else { 0 },
            ]);
            match kind {
                0 => gen_plain(rng, &mut out, cfg.allow_invalid_utf8),
                1 | 2 => {
                    let q = if kind == 1 { b'\'' } else { b'"' };
                    let other = if kind == 1 { b'"' } else { b'\'' };
                    out.push(q);
                    let n = rng.small(0, 5);
                    for _ in 0..n {
                        match rng.weighted(&[6, 3, 2, 2, 1, if cfg.allow_odd { 1 } else { 0 }]) {
                            0 => gen_plain(rng, &mut out, cfg.allow_invalid_utf8),
                            1 => out.push(b' '),
                            2 => out.push(other),
                            3 => out.push(b'\\'),
                            4 => out.push(b'\t'),
                            _ => out.push(b'\n'),
                        }
                    }
                    if n == 0 && !cfg.allow_odd {
                        out.push(b'a');
                    }
                    out.push(q);
                }
                3 => {
                    out.push(b'\\');
                    out.push(*rng.pick(&[
                        b' ', b' ', b'\'', b'"', b'\\', b'a', b'\n', b'\t', 0xc3,
                    ]));
                    if *out.last().unwrap() == 0xc3 {
                        // escaped first byte of a 2-byte character
                        out.push(0xa9);
                    }
                }
                _ => {
                    out.push(b'\'');
                    out.push(b'\'');
                }
            }
        }
        if t + 1 < ntok {
            gen_separator(rng, &mut out);
        }
    }
    // ending
    match rng.weighted(&[
        4,
        4,
        if cfg.trailing_blanks { 4 } else { 0 },
        if cfg.trailing_blanks { 2 } else { 0 },
        if cfg.allow_unterminated { 1 } else { 0 },
        if cfg.allow_odd && cfg.allow_backslash { 1 } else { 0 },
    ]) {
        0 => {}
        1 => out.push(b'\n'),
        2 => {
            out.push(*rng.pick(&[b' ', b'\t']));
            if rng.chance(1, 2) {
                out.push(b'\n');
            }
        }
        3 => gen_separator(rng, &mut out),
        4 => {
            out.push(*rng.pick(&[b'\'', b'"']));
            gen_plain(rng, &mut out, false);
        }
        _ => out.push(b'\\'),
    }
    out
}

/// Raw string over the small alphabet (every combination is reachable).
pub fn gen_raw_default(rng: &mut Rng, len: usize) -> Vec<u8> {
    let alphabet: &[&[u8]] = &[b" ", b"\t", b"\n", b"'", b"\"", b"\\", b"a", b"b", MB2, MB4];
    let mut out = Vec::new();
    for _ in 0..len {
        out.extend_from_slice(*rng.pick(alphabet));
    }
    out
}

/// Input for -0 / -d C: arbitrary bytes (never NUL unless it is the delimiter).
pub fn gen_delim_input(rng: &mut Rng, nfields: usize, delim: u8, allow_invalid: bool) -> Vec<u8> {
    let mut out = Vec::new();
    if rng.chance(1, 5) {
        out.push(delim);
    }
    for f in 0..nfields {
        let n = rng.small(1, 8);
        for _ in 0..n {
            let plain: [&[u8]; 3] = [b"a", b"b", b"-"];
            let bad: [&[u8]; 3] = [b"\xff", b"\x80", b"\xc3"];
            let ctl: [&[u8]; 5] = [b"\x07", b"\x08", b"\x0b", b"\x0c", b"\r"];
            let b: &[u8] = match rng.weighted(&[8, 2, 2, 1, 1, 1, 1, 1, if allow_invalid { 1 } else { 0 }, 1]) {
                0 => *rng.pick(&plain),
                9 => *rng.pick(&ctl),
                1 => b" ",
                2 => b"\n",
                3 => b"'",
                4 => b"\"",
                5 => b"\\",
                6 => MB2,
                7 => MB4,
                _ => *rng.pick(&bad),
            };
            for &x in b {
                if x != delim && x != 0 {
                    out.push(x);
                }
            }
        }
        if f + 1 < nfields {
            out.push(delim);
            if rng.chance(1, 8) {
                out.push(delim);
            }
        }
    }
    if rng.chance(2, 3) {
        out.push(delim);
    }
    out
}

#[derive(Clone, Copy, PartialEq, Eq)]
pub enum PlanFamily {
    OneChunk,
    OneByte,
    Uniform,
    Constructed,
    BufferEdge,
}

/// Read plan for `input`. `states` is `default_states(input)` in default mode.
pub fn gen_read_plan(
    rng: &mut Rng,
    input: &[u8],
    states: Option<&[u8]>,
    sep: &[u8],
    family: PlanFamily,
    eintr: bool,
    error_at: Option<usize>,
) -> Vec<ReadOp> {
    let len = input.len();
    let mut cuts: Vec<usize> = Vec::new();
    match family {
        PlanFamily::OneChunk => {}
        PlanFamily::OneByte => cuts.extend(1..len),
        PlanFamily::Uniform => {
            let max = *rng.pick(&[2usize, 3, 7, 16, 100, 1000, 5000]);
            let mut p = 0;
            while p < len {
                p += rng.urange(1, max);
                if p < len {
                    cuts.push(p);
                }
            }
        }
        PlanFamily::Constructed => {
            // cuts placed at interesting positions, each kept with prob 1/2
            for p in 1..len {
                let interesting = states.map_or(false, |s| s[p] != 0)
                    || is_utf8_continuation(input[p])
                    || sep.contains(&input[p])
                    || sep.contains(&input[p - 1]);
                if interesting && rng.chance(1, 2) {
                    cuts.push(p);
                }
            }
        }
        PlanFamily::BufferEdge => {
            for k in 1..=(len / 4096) {
                for d in [-1i64, 0, 1] {
                    let p = (k * 4096) as i64 + d;
                    if p > 0 && (p as usize) < len && rng.chance(2, 3) {
                        cuts.push(p as usize);
                    }
                }
            }
            if rng.chance(1, 2) {
                // shift the alignment of all later refills by a small first read
                cuts.push(rng.urange(1, 9).min(len.saturating_sub(1)).max(1));
            }
        }
    }
    cuts.sort_unstable();
    cuts.dedup();
    cuts.retain(|p| *p > 0 && *p < len);
    let mut plan = Vec::new();
    let mut err_done = false;
    for p in cuts {
        if let Some(e) = error_at {
            if !err_done && p >= e {
                if e > 0 {
                    plan.push(ReadOp::Cut(e));
                }
                plan.push(ReadOp::Err(libc::EIO));
                err_done = true;
                break;
            }
        }
        if eintr && rng.chance(1, 4) {
            for _ in 0..rng.urange(1, 3) {
                plan.push(ReadOp::Intr);
            }
        }
        plan.push(ReadOp::Cut(p));
    }
    if let Some(e) = error_at {
        if !err_done {
            if e > 0 {
                plan.push(ReadOp::Cut(e.min(len)));
            }
            plan.push(ReadOp::Err(libc::EIO));
        }
    } else if eintr {
        // EINTR before the remaining data and right before EOF
        if rng.chance(1, 2) {
            plan.push(ReadOp::Intr);
        }
        if rng.chance(1, 2) {
            plan.push(ReadOp::Cut(len));
            plan.push(ReadOp::Intr);
            if rng.chance(1, 2) {
                plan.push(ReadOp::Intr);
            }
        }
    }
    plan
}

pub fn pick_family(rng: &mut Rng, len: usize) -> PlanFamily {
    if len >= 4000 {
        *rng.pick(&[
            PlanFamily::BufferEdge,
            PlanFamily::BufferEdge,
            PlanFamily::Uniform,
            PlanFamily::OneChunk,
            PlanFamily::Constructed,
        ])
    } else {
        *rng.pick(&[
            PlanFamily::OneChunk,
            PlanFamily::OneByte,
            PlanFamily::Uniform,
            PlanFamily::Constructed,
            PlanFamily::Constructed,
        ])
    }
}

/// Account read-side faults and probes of one execution, and fold its events
/// into the abstract trace.
pub fn account_reads(log: &Log, input: &[u8], states: Option<&[u8]>, sep: &[u8], rep: &mut Report) {
    let mut pos = 0usize;
    for ev in &log.events {
        match ev {
            Event::Read { got, asked } => {
                rep.steps += 1;
                match got {
                    ReadGot::Data(n) => {
                        if *n < *asked && pos + n < input.len() {
                            rep.fault("short_read");
                        }
                        pos += n;
                        rep.trace.byte(1);
                        rep.trace.u64(bucket(*n));
                        if pos < input.len() && pos > 0 {
                            if let Some(st) = states {
                                match st[pos] {
                                    1 => rep.probe("cut_inside_quotes"),
                                    2 => rep.probe("cut_after_backslash"),
                                    _ => {}
                                }
                            }
                            if is_utf8_continuation(input[pos]) {
                                rep.probe("cut_inside_multibyte_char");
                            }
                            if sep.contains(&input[pos]) {
                                rep.probe("cut_before_separator");
                            }
                            if sep.contains(&input[pos - 1]) {
                                rep.probe("cut_after_separator");
                            }
                            if pos % 4096 == 0 {
                                rep.probe("cut_at_4096_multiple");
                            }
                        }
                    }
                    ReadGot::Intr => {
                        rep.fault("read_eintr");
                        rep.trace.byte(2);
                    }
                    ReadGot::Err(_) => {
                        rep.fault("read_error");
                        rep.trace.byte(3);
                    }
                    ReadGot::Eof => {
                        rep.trace.byte(4);
                    }
                }
            }
            Event::Spawn { argv, outcome, .. } => {
                rep.steps += 1;
                rep.trace.byte(5);
                rep.trace.u64(bucket(argv.len()));
                rep.trace.str(outcome.class());
                match outcome.class() {
                    "exit0" | "real" => {}
                    "exitN" => rep.fault("child_exit_nonzero"),
                    "exit255" => rep.fault("child_exit_255"),
                    "signal" => rep.fault("child_killed_by_signal"),
                    "enoent" => rep.fault("spawn_enoent"),
                    _ => rep.fault("spawn_error"),
                }
            }
            _ => {}
        }
    }
}

pub fn trace_status(obs: &XargsObs, rep: &mut Report) {
    match &obs.status {
        crate::ctx::RunStatus::Exit(c) => {
            rep.trace.byte(6);
            rep.trace.u64(*c as u64);
        }
        crate::ctx::RunStatus::Panic(_) => rep.trace.byte(7),
    }
    if obs.ambient_env > 0 {
        rep.probe("environment_variables_nobody_should_listen_to");
    }
}

/// First difference between two argv lists, for reports.
pub fn describe_spawns(spawns: &[Vec<Vec<u8>>]) -> String {
    let mut s = String::new();
    for (i, argv) in spawns.iter().enumerate().take(6) {
        if i > 0 {
            s.push_str(" | ");
        }
        let shown: Vec<String> = argv
            .iter()
            .take(12)
            .map(|a| format!("[{}]", crate::sys::show(&a[..a.len().min(40)])))
            .collect();
        s.push_str(&shown.join(" "));
        if argv.len() > 12 {
            s.push_str(&format!(" …(+{})", argv.len() - 12));
        }
    }
    if spawns.len() > 6 {
        s.push_str(&format!(" | …(+{} invocations)", spawns.len() - 6));
    }
    s
}

/// Generic simplifications of an xargs scenario (used by C04, C19, C20).
pub fn shrink_xargs(sc: &crate::xargs::XargsScenario) -> Vec<crate::xargs::XargsScenario> {
    use crate::world::Outcome;
    let mut out = vec![];
    if sc.env.is_some() || sc.rlimit_stack.is_some() {
        let mut s = sc.clone();
        s.env = None;
        s.rlimit_stack = None;
        out.push(s);
    }
    if !sc.read_plan.is_empty() {
        let mut s = sc.clone();
        s.read_plan.clear();
        out.push(s);
        if sc.read_plan.len() > 6 {
            let mut s = sc.clone();
            s.read_plan.truncate(sc.read_plan.len() / 2);
            out.push(s);
            let mut s = sc.clone();
            s.read_plan.drain(..sc.read_plan.len() / 2);
            out.push(s);
        } else {
            for i in 0..sc.read_plan.len() {
                let mut s = sc.clone();
                s.read_plan.remove(i);
                out.push(s);
            }
        }
    }
    for i in 0..sc.opts.len() {
        let mut s = sc.clone();
        s.opts.remove(i);
        out.push(s);
    }
    // outcomes: truncate, then make single ones succeed
    if !sc.outcomes.is_empty() {
        let mut s = sc.clone();
        s.outcomes.pop();
        out.push(s);
        for i in 0..sc.outcomes.len() {
            if sc.outcomes[i] != Outcome::Exit(0) {
                let mut s = sc.clone();
                s.outcomes[i] = Outcome::Exit(0);
                out.push(s);
            }
        }
    }
    // initial arguments
    for i in 1..sc.cmd.len() {
        let mut s = sc.clone();
        s.cmd.remove(i);
        out.push(s);
    }
    // input: halves, sixteenths, single bytes
    let n = sc.input.0.len();
    let rebase = |s: &mut crate::xargs::XargsScenario, from: usize, removed: usize| {
        for op in s.read_plan.iter_mut() {
            if let ReadOp::Cut(p) = op {
                if *p > from {
                    *p = p.saturating_sub(removed).max(from);
                }
            }
        }
    };
    if n > 1 {
        for (a, b) in [(0, n / 2), (n / 2, n)] {
            let mut s = sc.clone();
            s.input.0.drain(a..b);
            rebase(&mut s, a, b - a);
            out.push(s);
        }
    }
    if n > 64 {
        let step = n / 16;
        for k in 0..16 {
            let a = k * step;
            let b = (a + step).min(n);
            let mut s = sc.clone();
            s.input.0.drain(a..b);
            rebase(&mut s, a, b - a);
            out.push(s);
        }
    } else {
        for i in 0..n {
            let mut s = sc.clone();
            s.input.0.remove(i);
            rebase(&mut s, i, 1);
            out.push(s);
        }
    }
    // lower numeric option values
    for i in 0..sc.opts.len() {
        use crate::xargs::Opt;
        let lowered = match &sc.opts[i] {
            Opt::N(v) if *v > 1 => Some(Opt::N(v - 1)),
            Opt::L(v) if *v > 1 => Some(Opt::L(v - 1)),
            _ => None,
        };
        if let Some(o) = lowered {
            let mut s = sc.clone();
            s.opts[i] = o;
            out.push(s);
        }
    }
    out
}

/// Outcome script of `len` entries drawn from the enabled kinds.
pub fn gen_outcomes(rng: &mut Rng, len: usize, fatal_ok: bool) -> Vec<crate::world::Outcome> {
    use crate::world::Outcome;
    // swarm: each run enables a random subset of outcome kinds
    let w_fail = if rng.chance(3, 4) { 30 } else { 0 };
    let w_255 = if fatal_ok && rng.chance(1, 2) { 8 } else { 0 };
    let w_sig = if fatal_ok && rng.chance(1, 2) { 8 } else { 0 };
    let w_enoent = if fatal_ok && rng.chance(1, 3) { 5 } else { 0 };
    let w_err = if fatal_ok && rng.chance(1, 3) { 5 } else { 0 };
    let mut v = vec![];
    for _ in 0..len {
        let o = match rng.weighted(&[40, w_fail, w_255, w_sig, w_enoent, w_err]) {
            0 => Outcome::Exit(0),
            1 => Outcome::Exit(*rng.pick(&[1, 1, 2, 3, 42, 100, 123, 124, 125])),
            2 => Outcome::Exit(255),
            3 => {
                let s = *rng.pick(&[1, 2, 6, 9, 9, 11, 13, 15, 15, 31, 34, 64]);
                Outcome::Signal(s, rng.chance(1, 4))
            }
            4 => Outcome::SpawnErr(libc::ENOENT),
            _ => Outcome::SpawnErr(*rng.pick(&[
                libc::EACCES,
                libc::ENOEXEC,
                libc::ENOMEM,
                libc::EAGAIN,
                libc::E2BIG,
                libc::ETXTBSY,
            ])),
        };
        v.push(o);
    }
    v
}

/// A random read plan of any family for inputs of the batch properties.
pub fn gen_any_plan(rng: &mut Rng, input: &[u8], default_mode: bool, sep: &[u8]) -> Vec<ReadOp> {
    if rng.chance(1, 3) {
        return vec![];
    }
    let states = if default_mode {
        Some(default_states(input))
    } else {
        None
    };
    let fam = pick_family(rng, input.len());
    let eintr = rng.chance(1, 3);
    gen_read_plan(rng, input, states.as_deref(), sep, fam, eintr, None)
}

/// Options the statements do not mention and that must not change what they describe:
/// -t (echo on stderr), -P N (accepted, ignored), -a FILE (another source for the same bytes).
pub fn add_neutral_xargs_opts(rng: &mut Rng, opts: &mut Vec<crate::xargs::Opt>) {
    use crate::xargs::Opt;
    if rng.chance(1, 8) {
        let at = rng.usize_below(opts.len() + 1);
        opts.insert(at, Opt::Verbose);
    }
    if rng.chance(1, 10) {
        let at = rng.usize_below(opts.len() + 1);
        opts.insert(at, Opt::MaxProcs(*rng.pick(&[0usize, 1, 2, 8])));
    }
    if rng.chance(1, 10) {
        let at = rng.usize_below(opts.len() + 1);
        opts.insert(at, Opt::ArgFile);
    }
}

/// Environment variables nobody should listen to (not where the size of the environment or an
/// explicit -s is part of the scenario: the budgets there are computed to the byte).
pub fn add_ambient_xargs(rng: &mut Rng, sc: &mut crate::xargs::XargsScenario) {
    let env = crate::ambient::Ambient::gen_env(rng, 8);
    let sized = sc.env.is_some() || sc.rlimit_stack.is_some() || sc.opts.iter().any(|o| matches!(o, crate::xargs::Opt::S(_)));
    if !sized {
        sc.extra.ambient.env = env;
    }
}

/// Byte sequences that mean something to other programs when they open a file (byte-order
/// marks, `#!`, the gzip signature): at the very start of xargs' input they are argument bytes
/// like any other.
pub const MAGIC_PREFIXES: &[&[u8]] = &[b"\xef\xbb\xbf", b"\xef\xbb\xbf", b"\xff\xfe", b"\xfe\xff", b"#!", b"\x1f\x8b", b"\xef\xbb", b"%PDF"];
