//! Per-worker execution context: resets process-wide state before a run and
//! runs the code under test under `catch_unwind` with the world installed.

use std::panic::{catch_unwind, AssertUnwindSafe};
use std::path::PathBuf;
use std::sync::Mutex;

use findutils::verif_hooks::{install, uninstall, World};
use serde::Serialize;

use crate::sys::{self, StderrCapture};

#[derive(Clone, Debug, PartialEq, Eq, Serialize)]
pub enum RunStatus {
    Exit(i32),
    Panic(String),
}

static LAST_PANIC: Mutex<Option<String>> = Mutex::new(None);

pub fn install_panic_hook() {
    std::panic::set_hook(Box::new(|info| {
        let loc = info
            .location()
            .map(|l| format!("{}:{}", l.file(), l.line()))
            .unwrap_or_default();
        let msg = if let Some(s) = info.payload().downcast_ref::<&str>() {
            s.to_string()
        } else if let Some(s) = info.payload().downcast_ref::<String>() {
            s.clone()
        } else {
            "<non-string panic>".to_string()
        };
        *LAST_PANIC.lock().unwrap() = Some(format!("{msg} at {loc}"));
    }));
}

pub struct Ctx {
    pub stderr: Option<StderrCapture>,
    /// scratch root of this worker (exists, owned by the worker's uid)
    pub scratch: PathBuf,
    pub base_env: Vec<(String, String)>,
    pub default_stack: u64,
    cur_stack: Option<u64>,
    cur_env_is_base: bool,
    pub unprivileged: bool,
    pub simchild: PathBuf,
}

impl Ctx {
    pub fn new(scratch: PathBuf, capture: bool, unprivileged: bool, simchild: PathBuf) -> Ctx {
        let base_env = vec![
            ("PATH".to_string(), "/usr/bin:/bin".to_string()),
            ("TZ".to_string(), "UTC".to_string()),
            ("LC_ALL".to_string(), "C".to_string()),
        ];
        sys::set_environment(&base_env);
        let default_stack = sys::get_stack_rlimit();
        let stderr = if capture {
            Some(StderrCapture::install().expect("memfd for stderr"))
        } else {
            None
        };
        Ctx {
            stderr,
            scratch,
            base_env,
            default_stack,
            cur_stack: None,
            cur_env_is_base: true,
            unprivileged,
            simchild,
        }
    }

    pub fn prepare_process(&mut self, rlimit_stack: Option<u64>, env: Option<&[(String, String)]>) {
        if rlimit_stack != self.cur_stack {
            let v = rlimit_stack.unwrap_or(self.default_stack);
            let _ = sys::set_stack_rlimit(Some(v));
            self.cur_stack = rlimit_stack;
        }
        match env {
            Some(e) => {
                sys::set_environment(e);
                self.cur_env_is_base = false;
            }
            None => {
                if !self.cur_env_is_base {
                    sys::set_environment(&self.base_env);
                    self.cur_env_is_base = true;
                }
            }
        }
    }

    /// Run `f` with `world` installed; returns its status and what it wrote
    /// to fd 2.
    pub fn run_guarded<F>(&mut self, world: Box<dyn World>, f: F) -> (RunStatus, Vec<u8>)
    where
        F: FnOnce() -> i32,
    {
        if let Some(c) = &self.stderr {
            c.reset();
        }
        *LAST_PANIC.lock().unwrap() = None;
        install(world);
        let r = catch_unwind(AssertUnwindSafe(f));
        drop(uninstall());
        let stderr = self.stderr.as_ref().map(|c| c.take()).unwrap_or_default();
        let status = match r {
            Ok(code) => RunStatus::Exit(code),
            Err(_) => RunStatus::Panic(
                LAST_PANIC
                    .lock()
                    .unwrap()
                    .take()
                    .unwrap_or_else(|| "panic".into()),
            ),
        };
        (status, stderr)
    }

    pub fn note(&self, msg: &str) {
        match &self.stderr {
            Some(c) => c.real_eprint(msg),
            None => eprint!("{msg}"),
        }
    }
}
