//! C04 — xargs batching: order-preserving, lossless, within -n/-L/-s, maximal.

use serde_json::{json, Value};

use crate::ctx::Ctx;
use crate::prop::{Property, Report, Tier};
use crate::rng::Rng;
use crate::world::{Outcome, B};
use crate::xargs::{cost, expect_with, resolve, run_xargs, tokenize, Mode, Opt, XargsScenario};
use crate::xgen::*;
use crate::xoracle::Judge;

pub struct C04;

/// One argument as it must be *written* in default mode so that it is read
/// back as `arg` (quoting where needed).
fn write_default(rng: &mut Rng, arg: &[u8], out: &mut Vec<u8>) {
    let needs = arg.iter().any(|b| b" \t\n'\"\\".contains(b));
    if !needs {
        out.extend_from_slice(arg);
        return;
    }
    if !arg.contains(&b'\'') && !arg.contains(&b'\n') && rng.chance(1, 2) {
        out.push(b'\'');
        out.extend_from_slice(arg);
        out.push(b'\'');
    } else if !arg.contains(&b'"') && !arg.contains(&b'\n') && rng.chance(1, 2) {
        out.push(b'"');
        out.extend_from_slice(arg);
        out.push(b'"');
    } else {
        for &b in arg {
            if b" \t\n'\"\\".contains(&b) {
                out.push(b'\\');
            }
            out.push(b);
        }
    }
}

fn gen_arg(rng: &mut Rng, long_ok: bool, blanks_ok: bool) -> Vec<u8> {
    let len = match rng.weighted(&[50, 30, 15, if long_ok { 2 } else { 0 }]) {
        0 => rng.urange(1, 3),
        1 => rng.urange(1, 12),
        2 => rng.urange(10, 40),
        _ => rng.urange(1000, 5000),
    };
    let mut a = Vec::with_capacity(len);
    for _ in 0..len {
        let b = match rng.weighted(&[30, if blanks_ok { 2 } else { 0 }, 2, 1]) {
            0 => *rng.pick(b"abcdefgxyz0123456789"),
            1 => *rng.pick(b" \t'\"\\"),
            2 => *rng.pick(b"-_.,:/"),
            _ => *rng.pick(&[0xc3u8, 0xa9, 0xf0]),
        };
        a.push(b);
    }
    a
}

/// -n (or -L) of 65536 and more, with that many and a few more short arguments.
fn gen_many_args(rng: &mut Rng) -> XargsScenario {
    let n = *rng.pick(&[65_535usize, 65_536, 65_537, 70_000]);
    let count = match rng.below(3) {
        0 => n,
        1 => n + rng.urange(1, 20),
        _ => n + n / 2,
    };
    let mode = rng.below(3);
    let sep: u8 = match mode {
        0 => b'\n',
        1 => 0,
        _ => b' ',
    };
    let mut input = Vec::with_capacity(count * 2);
    for i in 0..count {
        input.push(b'a' + (i % 26) as u8);
        input.push(sep);
    }
    let mut opts = vec![];
    if mode == 1 {
        opts.push(Opt::Null);
    }
    // (-L counts lines: only with one argument per line)
    if mode == 0 && rng.chance(1, 3) {
        opts.push(Opt::L(n));
    } else {
        opts.push(Opt::N(n));
    }
    if rng.chance(1, 3) {
        opts.push(Opt::X);
    }
    // an explicit, generous -s: without one, how much an implementation puts on one command
    // line is its own business (the statement's max-chars is the user's), and 65536 arguments
    // need several hundred KiB
    opts.push(Opt::S(1_000_000));
    XargsScenario {
        opts,
        cmd: vec!["CMD".into()],
        input: B(input),
        read_plan: vec![],
        outcomes: vec![],
        rlimit_stack: None,
        env: None,
        real: None,
        note: "sixteen-bit-counts".into(),
        decoy_in_cwd: false,
        echo_mode: false,
        extra: Default::default(),
    }
}

impl Property for C04 {
    const ID: &'static str = "C04";
    type Sc = XargsScenario;

    fn generate(rng: &mut Rng, _tier: Tier) -> XargsScenario {
        if rng.chance(1, 2000) {
            return gen_many_args(rng);
        }
        let mut sc = XargsScenario {
            opts: vec![],
            cmd: vec!["CMD".into()],
            input: B(vec![]),
            read_plan: vec![],
            outcomes: vec![],
            rlimit_stack: None,
            env: None,
            real: None,
            note: String::new(),
            decoy_in_cwd: false,
            echo_mode: false,
            extra: Default::default(),
        };
        for _ in 0..rng.small(0, 4) {
            let a = gen_arg(rng, false, false);
            sc.cmd.push(String::from_utf8_lossy(&a).replace('\u{fffd}', "x"));
        }
        let tight = rng.chance(1, 10);
        let mode = rng.weighted(&[70, 15, 15]); // default / -0 / -d
        let delim_spell = *rng.pick(&[",", ":", "\\n", "\\t", ";"]);
        let delim: Option<u8> = match mode {
            1 => Some(0),
            2 => crate::xargs::parse_delim_spelling(delim_spell),
            _ => None,
        };
        // arguments
        let nargs = if tight && rng.chance(5, 6) {
            // enough short arguments for the system budget to close batches
            rng.urange(100, 1500)
        } else if rng.chance(1, 12) {
            0
        } else if rng.chance(1, 40) {
            // exact counts around a byte's and two bytes' worth of arguments
            *rng.pick(&[255usize, 256, 257, 1023, 1024, 1025])
        } else {
            rng.small(1, 40)
        };
        let args: Vec<Vec<u8>> = (0..nargs)
            .map(|_| {
                let blanks = delim.is_none() && rng.chance(1, 6);
                let mut a = gen_arg(rng, !tight, blanks);
                if let Some(d) = delim {
                    a.retain(|b| *b != d && *b != 0);
                    if a.is_empty() {
                        a.push(b'q');
                    }
                }
                a
            })
            .collect();
        // now and then one argument just under the largest size the kernel takes as a single
        // string (131072 bytes with its terminator): it fits, so it must be delivered
        let mut args = args;
        let near_strlen = !tight && !args.is_empty() && rng.chance(1, 60);
        if near_strlen {
            let at = rng.usize_below(args.len());
            let short = *rng.pick(&[1usize, 1, 2, 3, 5, 8, 9, 12, 200]);
            args[at] = vec![b'L'; 131072 - short];
        }
        // layout over lines
        let mut input = Vec::new();
        match delim {
            Some(d) => {
                if rng.chance(1, 6) {
                    input.push(d);
                }
                for (i, a) in args.iter().enumerate() {
                    input.extend_from_slice(a);
                    if i + 1 < args.len() || rng.chance(2, 3) {
                        input.push(d);
                        if rng.chance(1, 10) {
                            input.push(d);
                        }
                    }
                }
            }
            None => {
                if rng.chance(1, 5) {
                    input.extend_from_slice(*rng.pick(&[b" " as &[u8], b"\n", b"  \n", b"\t"]));
                }
                for (i, a) in args.iter().enumerate() {
                    write_default(rng, a, &mut input);
                    let last = i + 1 == args.len();
                    let sep: &[u8] = match rng.weighted(&[30, 30, 8, 6, 4, 4, if last { 25 } else { 0 }]) {
                        0 => b" ",
                        1 => b"\n",
                        2 => b" \n",  // line ending in a blank continues
                        3 => b"\n\n", // blank line
                        4 => b"\t",
                        5 => b"\n  ", // leading blanks on the next line
                        _ => b"",     // no final newline
                    };
                    if !last && sep.is_empty() {
                        input.push(b' ');
                    } else {
                        input.extend_from_slice(sep);
                    }
                }
            }
        }
        if rng.chance(1, 60) && !input.is_empty() && !near_strlen {
            // bytes that mean something to other programs at the start of a file
            let magic: Vec<u8> = rng.pick(MAGIC_PREFIXES).iter().copied().filter(|b| Some(*b) != delim).collect();
            input.splice(0..0, magic);
        }
        sc.input = B(input);
        match mode {
            1 => sc.opts.push(Opt::Null),
            2 => sc.opts.push(Opt::Delim(delim_spell.to_string())),
            _ => {}
        }
        // limits
        let base: usize = sc.cmd.iter().map(|c| cost(c.as_bytes())).sum();
        let first = args.first().map(|a| cost(a)).unwrap_or(2);
        let total: usize = args.iter().map(|a| cost(a)).sum();
        let use_n = rng.chance(1, 2);
        let use_l = rng.chance(1, 3) && (!use_n || rng.chance(1, 6));
        let use_s = rng.chance(2, 5);
        if use_n {
            sc.opts.push(Opt::N(*rng.pick(&[1, 1, 2, 2, 3, 5, 7, 100, 255, 256, 2_147_483_647, 4_294_967_296])));
        }
        if use_l {
            sc.opts.push(Opt::L(*rng.pick(&[1, 1, 2, 3, 5, 256, 2_147_483_647, 4_294_967_296])));
        }
        if use_s {
            let choices = [
                base.saturating_sub(1).max(1),
                base.max(1),
                base + 1,
                base + first - 1,
                base + first,
                base + first + 1,
                base + total / 2 + 1,
                base + total,
                base + total + 1,
                base + rng.urange(1, 60),
                base + rng.urange(1, 400),
            ];
            sc.opts.push(Opt::S(*rng.pick(&choices)));
        }
        if rng.chance(1, 4) && !tight {
            sc.opts.push(Opt::X);
        }
        if rng.chance(1, 3) {
            sc.opts.push(Opt::R);
        }
        rng.shuffle(&mut sc.opts);
        // a failed batch must not lose, repeat or reorder later arguments
        sc.outcomes = if rng.chance(1, 2) {
            (0..rng.small(0, 6))
                .map(|_| {
                    if rng.chance(1, 2) {
                        Outcome::Exit(*rng.pick(&[1, 2, 125]))
                    } else {
                        Outcome::Exit(0)
                    }
                })
                .collect()
        } else {
            vec![]
        };
        if tight {
            // ARG_MAX 131072 (the kernel's floor) and an environment that
            // leaves only a few hundred bytes to the system limiter
            sc.rlimit_stack = Some(512 * 1024);
            let budget = base + if rng.chance(1, 4) { rng.urange(120, 1500) } else { rng.urange(4500, 12000) };
            let nvars = *rng.pick(&[1usize, 1, 2, 40]);
            // leave `budget` bytes even under the most conservative accounting
            // (a pointer per argv/envp entry, one page of slack), so that a
            // single short argument always fits
            let pad = 131072usize - 2048 - 4096 - 8 * (nvars + 2 + sc.cmd.len()) - budget;
            let mut env = vec![];
            let mut left = pad;
            for i in 0..nvars {
                let key = format!("P{i}");
                let share = if i + 1 == nvars { left } else { pad / nvars };
                let vlen = share.saturating_sub(key.len() + 2);
                env.push((key.clone(), "e".repeat(vlen)));
                left -= vlen + key.len() + 2;
            }
            sc.env = Some(env);
            sc.note = "tight-system-budget".into();
        } else {
            sc.note = "explicit-limits".into();
            if rng.chance(1, 40) && !sc.opts.iter().any(|o| matches!(o, Opt::S(_))) && args.len() <= 60 {
                // real children: they receive what the seam recorded, and they cannot read
                // xargs' own input stream
                sc.real = Some(crate::xargs::RealKind::Simchild);
                sc.cmd[0] = "@REAL".into();
                sc.note = "real-simchild".into();
            }
        }
        let cfg = resolve(&sc.opts);
        let sep = match cfg.delim {
            Some(d) => vec![d],
            None => vec![b' ', b'\n', b'\t'],
        };
        sc.read_plan = gen_any_plan(rng, &sc.input.0.clone(), cfg.delim.is_none(), &sep);
        if sc.input.0.len() > 60_000 {
            // the long-argument family is about sizes, not about chunking
            sc.read_plan.truncate(400);
        }
        add_neutral_xargs_opts(rng, &mut sc.opts);
        add_ambient_xargs(rng, &mut sc);
        if tight {
            // -t prints every command with its (padded, 120 KiB) environment: seconds per run
            sc.opts.retain(|o| !matches!(o, Opt::Verbose));
        }
        sc
    }

    fn budget(tier: Tier) -> u64 {
        match tier {
            Tier::Quick => 500_000,
            Tier::Thorough => 10_000_000,
        }
    }

    fn check(sc: &XargsScenario, ctx: &mut Ctx, rep: &mut Report) {
        let cfg = resolve(&sc.opts);
        let spec = tokenize(&cfg, &sc.input.0);
        let obs = run_xargs(sc, ctx);
        rep.executions += 1;
        let exp = expect_with(sc, &obs.cmd, &cfg, &spec);
        let sep = match cfg.delim {
            Some(d) => vec![d],
            None => vec![b' ', b'\n', b'\t'],
        };
        let states = if cfg.delim.is_none() {
            Some(default_states(&sc.input.0))
        } else {
            None
        };
        account_reads(&obs.log, &sc.input.0, states.as_deref(), &sep, rep);
        trace_status(&obs, rep);
        let tight = sc.env.is_some();
        if tight {
            rep.probe("tight_system_budget_run");
        }
        if cfg.n.is_some_and(|n| n >= 65_535) && spec.toks.len() >= 65_535 {
            rep.probe("max_args_beyond_65535_with_that_many_arguments");
            rep.want_sample = false;
        }
        if cfg.l.is_some_and(|n| n >= 65_535) && spec.toks.len() >= 65_535 {
            rep.probe("max_lines_beyond_65535_with_that_many_lines");
            rep.want_sample = false;
        }
        // probes on which limit closes batches in the reference run
        if matches!(cfg.mode, Mode::Batch) && exp.ranges.len() > 1 {
            let base: usize = obs.cmd.iter().map(|c| cost(c.as_bytes())).sum();
            for (a, b) in &exp.ranges[..exp.ranges.len() - 1] {
                let batch = &spec.toks[*a..*b];
                let chars: usize = base + batch.iter().map(|t| cost(&t.bytes)).sum::<usize>();
                if cfg.n.map_or(false, |n| batch.len() >= n) {
                    rep.probe("batch_closed_by_max_args");
                } else if cfg.l.map_or(false, |l| batch.iter().filter(|t| t.hard).count() >= l) {
                    rep.probe("batch_closed_by_max_lines");
                } else if cfg.s.map_or(false, |s| chars + cost(&spec.toks[*b].bytes) > s) {
                    rep.probe("batch_closed_by_max_chars");
                    if cfg.s == Some(chars) {
                        rep.probe("batch_exactly_fills_max_chars");
                    }
                }
            }
        }
        if spec.toks.iter().zip(spec.toks.iter().skip(1)).any(|(a, _)| !a.hard) && cfg.l.is_some() {
            rep.probe("line_continued_after_trailing_blank_or_same_line");
        }
        match exp.own_error {
            Some("argument-too-large") => rep.probe("oversize_argument"),
            Some("x-overflow") => rep.probe("x_overflow_with_n_or_L"),
            Some("base-too-large") => rep.probe("command_alone_exceeds_max_chars"),
            _ => {}
        }
        if spec.toks.is_empty() {
            rep.probe(if cfg.r { "empty_input_with_r" } else { "empty_input_without_r" });
        }
        let env_bytes = sc
            .env
            .as_ref()
            .map(|e| crate::sys::env_string_bytes(e))
            .unwrap_or(0);
        let judge = Judge {
            prefix: "C04",
            sc,
            cfg: &cfg,
            spec: &spec,
            exp: &exp,
            tight_system: tight,
            arg_max: if tight { crate::sys::arg_max() } else { 0 },
            env_bytes,
            env_count: sc.env.as_ref().map(|e| e.len()).unwrap_or(0),
        };
        if !spec.unspecified.is_empty() {
            // the statement is silent on this input; only require sanity
            if matches!(obs.status, crate::ctx::RunStatus::Panic(_)) {
                judge.judge(&obs, rep);
            }
        } else {
            judge.judge(&obs, rep);
        }
        if sc.real.is_some() {
            rep.probe("real_child_processes");
            if rep.violation.is_none() {
                judge.judge_child_log(&obs, rep);
            }
        }
        if rep.want_sample {
            rep.sample = Some(json!({
                "scenario": {"opts": sc.opts, "cmd": sc.cmd, "input": sc.input, "read_plan": sc.read_plan, "outcomes": sc.outcomes,
                             "rlimit_stack": sc.rlimit_stack, "env_bytes": env_bytes, "note": sc.note},
                "argv": sc.argv(),
                "reference_batches": exp.ranges,
                "expected_exit": exp.exit,
                "observed": {"status": obs.status, "invocations": obs.spawn_argvs().iter().map(|a| a.iter().map(|x| crate::sys::show(&x[..x.len().min(60)])).collect::<Vec<_>>()).collect::<Vec<_>>(),
                             "stderr": crate::sys::lossy(&obs.stderr)},
            }));
        }
    }

    fn shrink(sc: &XargsScenario) -> Vec<XargsScenario> {
        shrink_xargs(sc)
    }

    fn crosscheck(sc: &XargsScenario, ctx: &mut Ctx, bins: &std::path::Path) -> crate::crosscheck::Xc {
        crate::crosscheck::xargs(sc, &sc.read_plan, ctx, bins)
    }

    fn rule() -> &'static str {
        "one evaluation = one seeded scenario (argument sequence with its layout over input lines, initial arguments, any combination of -n/-L/-s/-x/-r with values near the interesting sizes, mode default/-0/-d, read plan, child-outcome script; 10% with RLIMIT_STACK and environment padding chosen so that the system limiter's budget is a few hundred bytes) run through xargs_main; oracle = history check of the spawn log against a greedy reference batcher; a 1/40 slice runs real children (argv as recorded by the seam, no access to xargs' own input stream); 1/60 of the untight runs carry one argument 1-200 bytes short of the kernel's 128 KiB single-string limit; environment variables nobody should listen to in an eighth of the runs without -s; a slice of the scenarios also goes through the real xargs executable (standard input a pipe, a regular file, a regular file read from an offset: a difference is a violation); distinct = distinct abstract trace; non-trivial = a read fault or failing child fired, or a boundary probe hit (batch closed by each kind of limit, batch exactly filling -s, oversize argument, -x overflow, empty input with/without -r, tight system budget)"
    }

    fn components() -> Value {
        json!({
            "real": ["clap parsing", "normalize_options", "both argument readers", "limiter chain incl. MaxCharsCommandSizeLimiter::new_system (real sysconf(_SC_ARG_MAX) under the run's RLIMIT_STACK, real environment)", "process_input", "CommandBuilder"],
            "stub": ["stdin (SimStream)", "fork/exec/wait (fabricated outcomes)"]
        })
    }

    fn assumptions() -> Vec<&'static str> {
        vec![
            "when the operating-system budget (not -n/-L/-s) closes a batch, maximality is judged against the most conservative plausible accounting (strings + 8 bytes per pointer + one page), so both string-only and pointer-charging limiters are accepted",
            "-x is not combined with the tight system budget (the statement speaks of -s overflow only)",
        ]
    }
}
