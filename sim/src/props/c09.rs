//! C09 — find -exec ... ;: one run per file, {} substituted, argv intact, true iff 0.

use serde::{Deserialize, Serialize};
use serde_json::{json, Value};

use crate::ctx::{Ctx, RunStatus};
use crate::fgen::*;
use crate::find::{account_find, run_find_prebuilt, FindScenario, MutOp, Mutation, When};
use crate::prop::{Property, Report, Tier};
use crate::rng::Rng;
use crate::tree::{self, FollowMode, RefWalk, WalkCfg};
use crate::world::{Event, Outcome};
use crate::xgen::gen_outcomes;

#[derive(Clone, Debug, Serialize, Deserialize)]
pub struct Sc {
    pub find: FindScenario,
    pub starts: Vec<String>,
    pub sorted: bool,
    pub depth: bool,
    pub tests: Vec<String>,
    pub execdir: bool,
    /// argument templates after the command name
    pub templates: Vec<String>,
    /// tests evaluated after the action on the same entry
    pub after: Vec<String>,
    /// a second action right after the first, of the other or the same flavour:
    /// (is -execdir, its single template argument); it runs iff the first was true
    #[serde(default)]
    pub second: Option<(bool, String)>,
    /// `-mindepth 1` (used when the starting point is spelled `DIR/..`, whose own basename is
    /// `..`: only the entries below it are acted on)
    #[serde(default)]
    pub mindepth1: bool,
    /// -H / -L before the starting points (only without racing mutations)
    #[serde(default)]
    pub follow: Option<String>,
    /// fixed arguments are added at run time (they are not part of the stored scenario) until
    /// the substituted command line is this many bytes short of what the operating system
    /// accepts under the limits in force (its ARG_MAX, the size of the environment, a pointer
    /// per string): the kernel takes it, so CMD must run
    #[serde(default)]
    pub near_limit: Option<usize>,
}

const CMD2: &str = "CMD2";

const CMD: &str = "CMD";
const OK: &[u8] = b"\x01OK";

impl Sc {
    fn render(&mut self) {
        let mut a: Vec<String> = self.follow.iter().cloned().collect();
        a.extend(self.starts.iter().cloned());
        if self.sorted {
            a.push("-sorted".into());
        }
        if self.depth {
            a.push("-depth".into());
        }
        if self.mindepth1 {
            a.push("-mindepth".into());
            a.push("1".into());
        }
        a.extend(self.tests.iter().cloned());
        a.push("-print0".into());
        a.push(if self.execdir { "-execdir".into() } else { "-exec".into() });
        a.push(CMD.into());
        a.extend(self.templates.iter().cloned());
        a.push(";".into());
        if let Some((dir2, t2)) = &self.second {
            a.push(if *dir2 { "-execdir".into() } else { "-exec".into() });
            a.push(CMD2.into());
            a.push(t2.clone());
            a.push(";".into());
        }
        a.extend(self.after.iter().cloned());
        a.push("-printf".into());
        a.push("\\001OK\\0".into());
        self.find.argv = a;
        self.find.record_delim = 0;
    }
}

pub struct C09;

fn gen_template(rng: &mut Rng) -> String {
    let mut s = String::new();
    let n = rng.small(1, 4);
    for _ in 0..n {
        match rng.weighted(&[5, 5, 1]) {
            0 => s.push_str(*rng.pick(&["a", "--opt=", " ", "x y", "'", "\"", "$HOME", "*", "\\", "-", "{", "}", "pre/", ".suf", "\n"])),
            1 => s.push_str("{}"),
            _ => s.push_str("{}{}"),
        }
    }
    s
}

fn substitute(t: &str, path: &[u8]) -> Vec<u8> {
    let tb = t.as_bytes();
    let mut out = Vec::new();
    let mut i = 0;
    while i < tb.len() {
        if tb[i..].starts_with(b"{}") {
            out.extend_from_slice(path);
            i += 2;
        } else {
            out.push(tb[i]);
            i += 1;
        }
    }
    out
}

/// Lexical normalisation of a directory path relative to `root`.
pub fn norm_dir(p: &str) -> String {
    let mut parts: Vec<&str> = vec![];
    for c in p.split('/') {
        match c {
            "" | "." => {}
            ".." => {
                parts.pop();
            }
            x => parts.push(x),
        }
    }
    parts.join("/")
}

/// A child's working directory relative to find's own (`root`), lexically normalised: an
/// absolute spelling of a directory below `root` is the same directory as the relative one.
pub fn rel_dir(c: &[u8], root: &std::path::Path) -> String {
    use std::os::unix::ffi::OsStrExt;
    if c.starts_with(b"/") {
        let canon = std::fs::canonicalize(root).unwrap_or_else(|_| root.to_path_buf());
        for r in [root.as_os_str().as_bytes(), canon.as_os_str().as_bytes()] {
            if let Some(rest) = c.strip_prefix(r) {
                if rest.is_empty() || rest.starts_with(b"/") {
                    return norm_dir(&String::from_utf8_lossy(rest));
                }
            }
        }
        // somewhere else: keep it recognisably absolute
        return format!("/{}", norm_dir(&String::from_utf8_lossy(c)));
    }
    norm_dir(&String::from_utf8_lossy(c))
}

/// (parent directory, "./basename") of a printed path, as -execdir must see it.
pub fn split_for_execdir(p: &str) -> (String, String) {
    let trimmed = p.trim_end_matches('/');
    match trimmed.rsplit_once('/') {
        Some((dir, name)) => (norm_dir(dir), format!("./{name}")),
        None => (String::new(), format!("./{trimmed}")),
    }
}

/// Byte version: (parent directory, lossy and normalised; b"./basename").
pub fn split_for_execdir_bytes(p: &[u8]) -> (String, Vec<u8>) {
    let mut end = p.len();
    while end > 0 && p[end - 1] == b'/' {
        end -= 1;
    }
    let t = &p[..end];
    let mut name = b"./".to_vec();
    match t.iter().rposition(|b| *b == b'/') {
        Some(k) => {
            name.extend_from_slice(&t[k + 1..]);
            (norm_dir(&String::from_utf8_lossy(&t[..k])), name)
        }
        None => {
            name.extend_from_slice(t);
            (String::new(), name)
        }
    }
}

/// A small tree and a command line that (once filled up at run time) ends a few hundred to a
/// few thousand bytes under the operating system's limit.
fn gen_near_limit(rng: &mut Rng) -> Sc {
    let cfg = TreeCfg {
        roots: vec!["t".into()],
        max_entries: *rng.pick(&[0, 2, 5]),
        max_depth: 2,
        names: NameStyle::Simple,
        link_weight: 0,
        allow_loops: false,
        outside: false,
        fifo: false,
        raw_byte: None,
    };
    let spec = gen_tree(rng, &cfg);
    let mut find = FindScenario::new(spec, vec![]);
    if rng.chance(1, 2) {
        find.outcomes = gen_outcomes(rng, 8, true);
    }
    let mut sc = Sc {
        find,
        starts: vec!["t".into()],
        sorted: true,
        depth: false,
        tests: vec![],
        execdir: rng.chance(1, 3),
        templates: vec![rng.pick(&["pre-{}", "{}", "{}.suf"]).to_string()],
        after: vec![],
        mindepth1: false,
        follow: None,
        second: None,
        near_limit: Some(*rng.pick(&[300usize, 700, 1500, 2500, 3500, 4500, 5200])),
    };
    sc.render();
    sc
}

/// One directory with 65535-66000 files, the action reached for every one of them: the
/// 65536th run is a run like any other.
fn gen_many_files(rng: &mut Rng) -> Sc {
    let mut spec = crate::tree::TreeSpec::default();
    spec.nodes.push(crate::tree::Node::Dir { path: "t".into() });
    spec.bulk.push(crate::tree::Bulk { dir: "t".into(), count: *rng.pick(&[65_535usize, 65_536, 65_537, 66_000]), kind: crate::tree::BulkKind::File });
    let mut find = FindScenario::new(spec, vec![]);
    if rng.chance(1, 2) {
        // a few failing children somewhere along the way
        find.outcomes = (0..rng.urange(1, 70_000)).map(|_| Outcome::Exit(0)).collect();
        find.outcomes.push(Outcome::Exit(1));
    }
    let mut sc = Sc {
        find,
        starts: vec!["t".into()],
        sorted: rng.chance(1, 2),
        depth: false,
        tests: vec!["-type".into(), "f".into()],
        execdir: rng.chance(1, 3),
        templates: vec![rng.pick(&["{}", "x{}"]).to_string()],
        after: vec![],
        mindepth1: false,
        follow: None,
        second: None,
        near_limit: None,
    };
    sc.render();
    sc
}

/// The scenario with its command line filled up (see `Sc::near_limit`).
fn fill_to_limit(sc: &Sc, slack: usize) -> Sc {
    let arg_max = crate::sys::arg_max() as usize;
    let env: Vec<(std::ffi::OsString, std::ffi::OsString)> = std::env::vars_os().collect();
    let env_bytes: usize = env.iter().map(|(k, v)| k.len() + v.len() + 2).sum();
    // the longest substituted line decides: the deepest path of the tree
    let longest = sc.find.tree.nodes.iter().map(|n| n.path().len()).max().unwrap_or(1);
    let fixed: usize = CMD.len() + 1 + sc.templates.iter().map(|t| substitute(t, &vec![b'p'; longest]).len() + 1).sum::<usize>();
    const PIECE: usize = 130_000;
    let nfill = arg_max / PIECE + 1;
    let pointers = 8 * (1 + sc.templates.len() + nfill + env.len() + 2);
    let fill_total = arg_max.saturating_sub(env_bytes + pointers + fixed + slack);
    let mut out = sc.clone();
    let mut left = fill_total;
    let mut fillers = vec![];
    for k in 0..nfill {
        // every piece costs its length and a terminator
        let share = if k + 1 == nfill { left } else { (fill_total / nfill).min(left) };
        if share < 2 {
            break;
        }
        fillers.push("F".repeat(share - 1));
        left -= share;
    }
    if slack % 200 == 0 {
        out.templates.extend(fillers);
    } else {
        fillers.extend(out.templates.drain(..));
        out.templates = fillers;
    }
    out.render();
    out
}

/// Whether the kernel takes a command line of these strings under the limits in force now.
fn kernel_accepts(args: &[Vec<u8>]) -> bool {
    use std::os::unix::ffi::OsStrExt;
    let mut c = std::process::Command::new("/bin/true");
    for a in args {
        c.arg(std::ffi::OsStr::from_bytes(a));
    }
    matches!(c.status(), Ok(st) if st.success())
}

impl Property for C09 {
    const ID: &'static str = "C09";
    type Sc = Sc;

    fn generate(rng: &mut Rng, _tier: Tier) -> Sc {
        if rng.chance(1, 150) {
            return gen_near_limit(rng);
        }
        if rng.chance(1, 3000) {
            return gen_many_files(rng);
        }
        let mutate = rng.chance(1, 4);
        let cfg = TreeCfg {
            roots: vec!["t".into()],
            max_entries: *rng.pick(&[0, 3, 6, 10, 18]),
            max_depth: rng.urange(1, 4),
            names: if rng.chance(2, 3) { NameStyle::Hostile } else { NameStyle::Simple },
            link_weight: 6,
            allow_loops: false,
            outside: false,
            fifo: false,
            // file names need not be valid UTF-8 (the reference walk of the mutation runs works on strings)
            raw_byte: if !mutate && rng.chance(1, 3) { Some(*rng.pick(&[0xffu8, 0xe9, 0xc3, 0x80])) } else { None },
        };
        let spec = gen_tree(rng, &cfg);
        let starts = match rng.weighted(&[6, 2, 2, 1]) {
            0 => vec!["t".to_string()],
            1 => vec!["./t".to_string()],
            2 => vec!["t/".to_string()],
            _ => vec!["t".to_string(), "./t".to_string()],
        };
        // a starting point with directory components: -execdir must still run in its parent
        let mut starts = starts;
        if !mutate && rng.chance(1, 4) {
            let deep: Vec<&crate::tree::Node> = spec.nodes.iter().filter(|n| n.path().contains('/') && !n.path().contains(crate::tree::RAW_SENTINEL)).collect();
            if !deep.is_empty() {
                let n = *rng.pick(&deep);
                let is_dir = matches!(n, crate::tree::Node::Dir { .. });
                let p = n.path().to_string();
                let st = match rng.weighted(&[5, 2, if is_dir { 2 } else { 0 }]) {
                    0 => p,
                    1 => format!("./{p}"),
                    _ => format!("{p}/"),
                };
                if rng.chance(1, 2) {
                    starts = vec![st];
                } else {
                    starts.push(st);
                }
            }
        }
        // a starting point spelled through `..` (its entries' parent then has no final name
        // component): DIR/.. names DIR's parent
        let mut mindepth1 = false;
        if !mutate && rng.chance(1, 8) {
            let dirs: Vec<String> = dirs_of(&spec).into_iter().filter(|d| d.contains('/') && !d.contains(crate::tree::RAW_SENTINEL)).collect();
            if !dirs.is_empty() {
                starts = vec![format!("{}/..", rng.pick(&dirs))];
                // with or without the starting point itself (whose basename is `..`)
                mindepth1 = rng.chance(1, 2);
            }
        }
        let ntempl = rng.small(0, 4);
        let mut templates: Vec<String> = (0..ntempl).map(|_| gen_template(rng)).collect();
        if rng.chance(1, 6) {
            // arguments that look like expression operators
            templates.push(rng.pick(&["-o", "(", ")", "!", ",", "-print", "+", "{}+", ";x", "-help", "--help", "-version", "--version", "-delete", "-quit", "-exec", "-maxdepth", "-files0-from", "--"]).to_string());
        }
        // never let the template end the action early or turn it into '{} +'
        for i in 0..templates.len() {
            if templates[i] == ";" {
                templates[i] = ";;".into();
            }
            if templates[i] == "+" && i > 0 && templates[i - 1] == "{}" {
                templates[i] = "++".into();
            }
        }
        let tests = if mutate { vec![] } else { gen_stable_tests(rng) };
        let mut find = FindScenario::new(spec, vec![]);
        find.gen_extras(rng, true);
        find.starts_via_file = rng.chance(1, 10);
        let npaths = (find.tree.nodes.len() * starts.len() + 2) * 2;
        find.outcomes = if rng.chance(3, 4) { gen_outcomes(rng, npaths, true) } else { vec![] };
        // exit codes 126..254 are ordinary failures for find
        for o in find.outcomes.iter_mut() {
            if rng.chance(1, 10) {
                *o = Outcome::Exit(*rng.pick(&[126, 127, 200, 254]));
            }
        }
        let mut after = vec![];
        if !mutate && rng.chance(1, 4) {
            // a name test written after the action: the command still runs for every file
            // that reaches it, whatever the test says afterwards
            after.extend([rng.pick(&["-name", "-iname", "-path"]).to_string(), rng.pick(&["*a*", "*b*", "[c-z]*", "*/t/*", "*.txt"]).to_string()]);
        }
        if mutate {
            // children that change the tree they are run on
            let paths = paths_of(&find.tree);
            for _ in 0..rng.small(1, 3) {
                let p = rng.pick(&paths).clone();
                let op = match rng.weighted(&[30, 25, 20, 15, 10]) {
                    0 => MutOp::Unlink,
                    1 => MutOp::RmTree,
                    2 => MutOp::ToFile,
                    3 => MutOp::Create,
                    _ => MutOp::RenameAway,
                };
                let path = if op == MutOp::Create { format!("{p}.new") } else { p };
                find.mutations.push(Mutation {
                    at: When::AtSpawn(rng.usize_below(npaths.min(10))),
                    op,
                    path,
                });
            }
            // later tests on the same entry meet ENOENT / ENOTDIR
            // (no time tests here: they would read the real clock's ticks)
            match rng.below(5) {
                0 => after.extend(["-size".to_string(), "+0".to_string()]),
                1 => after.extend(["-type".to_string(), "f".to_string()]),
                2 => after.push("-empty".to_string()),
                3 => after.extend(["-lname".to_string(), "*".to_string()]),
                _ => {}
            }
        }
        // now and then the children are real processes, and find's working directory is so
        // deep that its absolute path does not fit PATH_MAX (relative names keep working)
        let real = !mutate && rng.chance(1, 25);
        if real {
            find.real_children = true;
            find.long_cwd = if rng.chance(2, 3) { Some(*rng.pick(&[2000usize, 3900, 4090, 4100, 4600, 6000])) } else { None };
            find.starts_via_file = false;
            find.outcomes.retain(|o| matches!(o, Outcome::Exit(_) | Outcome::Signal(..)));
            find.ambient.stdout_tty = false;
            find.ambient.stdout_closed_pipe = false;
        }
        let mut sc = Sc {
            find,
            starts,
            sorted: rng.chance(2, 3),
            depth: rng.chance(1, 5),
            tests,
            execdir: rng.chance(2, 5),
            templates,
            after,
            mindepth1,
            follow: if !mutate && !real && rng.chance(1, 5) { Some(rng.pick(&["-L", "-H"]).to_string()) } else { None },
            second: if rng.chance(1, 4) && !real { Some((rng.chance(1, 2), rng.pick(&["{}", "{}", "x{}y", "{}{}"]).to_string())) } else { None },
            near_limit: None,
        };
        sc.render();
        sc
    }

    fn budget(tier: Tier) -> u64 {
        match tier {
            Tier::Quick => 150_000,
            Tier::Thorough => 3_000_000,
        }
    }

    fn check(sc: &Sc, ctx: &mut Ctx, rep: &mut Report) {
        let filled;
        let sc = match sc.near_limit {
            Some(slack) => {
                ctx.prepare_process(sc.find.rlimit_stack, sc.find.env.as_deref());
                filled = fill_to_limit(sc, slack);
                // the kernel is the judge: the longest line this run can build must be one it takes
                let longest = sc.find.tree.nodes.iter().map(|n| n.path().len()).max().unwrap_or(1);
                let mut line: Vec<Vec<u8>> = vec![CMD.as_bytes().to_vec()];
                line.extend(filled.templates.iter().map(|t| substitute(t, &vec![b'p'; longest])));
                if !kernel_accepts(&line[1..]) {
                    rep.probe("near_limit_line_not_taken_by_this_kernel");
                    return;
                }
                rep.probe("command_line_a_few_kib_under_the_system_limit");
                rep.want_sample = false; // (megabytes of filler)
                &filled
            }
            None => sc,
        };
        let root = match crate::find::place_tree(&sc.find, ctx) {
            Ok(r) => r,
            Err(e) => {
                rep.fail("C09.HARNESS-tree-build", e);
                return;
            }
        };
        if let Some(len) = sc.find.long_cwd {
            rep.probe(if len + 300 > 4096 { "working_directory_path_beyond_path_max" } else { "working_directory_path_thousands_of_bytes" });
        }
        let mutated = !sc.find.mutations.is_empty();
        let mut rw = RefWalk::default();
        // the reference walk is needed after mutations, and - when the expression has no test
        // before the action - to know that every entry must reach it
        if mutated || sc.tests.is_empty() || sc.follow.is_some() {
            let wcfg = WalkCfg {
                follow: match sc.follow.as_deref() {
                    Some("-L") => FollowMode::L,
                    Some("-H") => FollowMode::H,
                    _ => FollowMode::P,
                },
                mindepth: usize::from(sc.mindepth1),
                maxdepth: usize::MAX,
                depth_first: sc.depth,
                sorted: true,
            };
            for s in &sc.starts {
                tree::ref_walk(&root, s, &wcfg, &mut rw);
            }
        }
        let obs = run_find_prebuilt(&sc.find, ctx, root);
        if sc.find.long_cwd.is_some() {
            crate::find::leave_long_cwd(ctx);
        }
        rep.executions += 1;
        account_find(&obs, rep);
        if sc.find.real_children {
            rep.probe("real_child_processes");
            if let Some((class, detail)) = crate::find::judge_real_children(&sc.find, &obs) {
                rep.fail(format!("C09.{class}"), detail);
                return;
            }
        }
        if sc.execdir {
            rep.probe("execdir");
            if sc.starts.iter().any(|s| s.trim_start_matches("./").trim_end_matches('/').contains('/')) {
                rep.probe("execdir_starting_point_with_directory_components");
            }
        }
        if sc.find.tree.raw_byte.is_some() && sc.find.tree.nodes.iter().any(|n| n.path().contains(tree::RAW_SENTINEL)) {
            rep.probe("file_name_not_valid_utf8");
        }
        if sc.find.tree.bulk.iter().any(|b| b.count >= 65_535) {
            rep.probe("action_reached_for_more_than_65535_files");
            rep.want_sample = false;
        }
        if sc.templates.iter().any(|t| t.matches("{}").count() > 1) {
            rep.probe("several_placeholders_in_one_argument");
        }
        if sc.templates.iter().all(|t| !t.contains("{}")) {
            rep.probe("no_placeholder_at_all");
        }
        if sc.starts.iter().any(|s| s.ends_with("/..")) {
            rep.probe("starting_point_spelled_through_dot_dot");
        }
        if let Some((dir2, _)) = &sc.second {
            rep.probe(if *dir2 != sc.execdir { "second_action_of_the_other_flavour" } else { "second_action_of_the_same_flavour" });
        }
        if let RunStatus::Panic(msg) = &obs.status {
            rep.fail("C09.panic", format!("argv {:?}: find panicked: {msg}", sc.find.argv));
            return;
        }
        if obs.log.budget_exhausted {
            rep.fail("C09.no-progress", format!("argv {:?}: step budget exhausted", sc.find.argv));
            return;
        }
        // walk the interleaved history: records and spawns share one sequence
        #[derive(Debug)]
        enum Item {
            Rec(Vec<u8>),
            Spawn(Vec<Vec<u8>>, Option<Vec<u8>>, Outcome),
        }
        let mut items: Vec<Item> = vec![];
        {
            let mut cur: Vec<u8> = vec![];
            // replay accepted bytes in event order
            let mut sink_pos = 0usize;
            for ev in &obs.log.events {
                match ev {
                    Event::Write { accepted: Some(n), .. } => {
                        for &b in &obs.log.sink[sink_pos..sink_pos + n] {
                            if b == 0 {
                                items.push(Item::Rec(std::mem::take(&mut cur)));
                            } else {
                                cur.push(b);
                            }
                        }
                        sink_pos += n;
                    }
                    Event::Spawn { argv, cwd, outcome, .. } => {
                        items.push(Item::Spawn(
                            argv.iter().map(|a| a.0.clone()).collect(),
                            cwd.as_ref().map(|c| c.0.clone()),
                            outcome.clone(),
                        ));
                    }
                    _ => {}
                }
            }
            if !cur.is_empty() {
                rep.fail("C09.unterminated-record", format!("argv {:?}", sc.find.argv));
                return;
            }
        }
        let describe = || format!("argv {:?} outcomes {:?} mutations {:?}", sc.find.argv, &sc.find.outcomes[..sc.find.outcomes.len().min(8)], sc.find.mutations);
        let mut i = 0usize;
        let mut reached: Vec<String> = vec![];
        let mut spawn_no = 0usize;
        while i < items.len() {
            match &items[i] {
                Item::Rec(p) if p.as_slice() != OK => {
                    let path = tree::unlossy(sc.find.tree.raw_byte, p);
                    reached.push(String::from_utf8_lossy(&path).into_owned());
                    // exactly one spawn, at this point of the evaluation
                    let Some(Item::Spawn(argv, cwd, outcome)) = items.get(i + 1) else {
                        rep.fail("C09.not-run-for-reached-file", format!("{}: [{}] reached the action but no command was run at that point", describe(), crate::sys::show(&path)));
                        return;
                    };
                    spawn_no += 1;
                    let (want_path, want_dir): (Vec<u8>, Option<String>) = if sc.execdir {
                        let (d, n) = split_for_execdir_bytes(&path);
                        (n, Some(d))
                    } else {
                        (path.clone(), None)
                    };
                    let mut want = vec![CMD.as_bytes().to_vec()];
                    for t in &sc.templates {
                        want.push(substitute(t, &want_path));
                    }
                    if *argv != want {
                        let class = if argv.len() != want.len() {
                            "C09.argv-element-count"
                        } else if sc.execdir && argv.iter().zip(&want).any(|(a, w)| a != w) && {
                            let mut alt = vec![CMD.as_bytes().to_vec()];
                            for t in &sc.templates {
                                alt.push(substitute(t, &path));
                            }
                            *argv == alt
                        } {
                            "C09.execdir-path-not-dot-slash-basename"
                        } else {
                            "C09.substitution"
                        };
                        rep.fail(
                            class,
                            format!(
                                "{}: for [{}] expected argv {:?} got {:?}",
                                describe(),
                                crate::sys::show(&path),
                                want.iter().map(|a| crate::sys::show(a)).collect::<Vec<_>>(),
                                argv.iter().map(|a| crate::sys::show(a)).collect::<Vec<_>>()
                            ),
                        );
                        return;
                    }
                    match (&want_dir, cwd) {
                        (None, None) => {}
                        // an explicit `.` is find's own directory
                        (None, Some(c)) if rel_dir(c, &obs.root).is_empty() => {}
                        (None, Some(c)) => {
                            rep.fail("C09.unexpected-cwd", format!("{}: -exec ran [{}] in directory [{}]", describe(), crate::sys::show(&path), crate::sys::show(c)));
                            return;
                        }
                        (Some(d), c) => {
                            let got = c.as_ref().map(|c| rel_dir(c, &obs.root)).unwrap_or_default();
                            if got != *d {
                                rep.fail(
                                    "C09.execdir-wrong-directory",
                                    format!("{}: [{}] must run in its parent directory [{}], ran in [{}]", describe(), crate::sys::show(&path), d, got),
                                );
                                return;
                            }
                        }
                    }
                    // truth value: the OK marker follows iff the command exited 0
                    // (tests placed between the action and the marker may veto it)
                    let mut next = i + 2;
                    let mut exit0 = matches!(outcome, Outcome::Exit(0));
                    if let (Some((dir2, t2)), true) = (&sc.second, exit0) {
                        // the second action runs now, with its own flavour of path and directory
                        let Some(Item::Spawn(argv2, cwd2, outcome2)) = items.get(next) else {
                            rep.fail("C09.second-action-not-run", format!("{}: the first action was true for [{}] but the second command was not run", describe(), crate::sys::show(&path)));
                            return;
                        };
                        let (p2, d2): (Vec<u8>, Option<String>) = if *dir2 {
                            let (d, n) = split_for_execdir_bytes(&path);
                            (n, Some(d))
                        } else {
                            (path.clone(), None)
                        };
                        let want2 = vec![CMD2.as_bytes().to_vec(), substitute(t2, &p2)];
                        let got_dir = cwd2.as_ref().map(|c| rel_dir(c, &obs.root));
                        let dir_ok = match (&d2, &got_dir) {
                            (None, None) => true,
                            (Some(d), g) => g.clone().unwrap_or_default() == *d,
                            (None, Some(g)) => g.is_empty(),
                        };
                        if *argv2 != want2 || !dir_ok {
                            rep.fail(
                                "C09.second-action-argv-or-directory",
                                format!(
                                    "{}: second action for [{}]: expected argv {:?} in {:?}, got {:?} in {:?}",
                                    describe(),
                                    crate::sys::show(&path),
                                    want2.iter().map(|a| crate::sys::show(a)).collect::<Vec<_>>(),
                                    d2,
                                    argv2.iter().map(|a| crate::sys::show(a)).collect::<Vec<_>>(),
                                    got_dir
                                ),
                            );
                            return;
                        }
                        exit0 = matches!(outcome2, Outcome::Exit(0));
                        next += 1;
                    }
                    let ok_follows = matches!(items.get(next), Some(Item::Rec(r)) if r.as_slice() == OK);
                    if sc.after.is_empty() {
                        if ok_follows != exit0 {
                            rep.fail(
                                if exit0 { "C09.false-although-exit-0" } else { "C09.true-although-command-failed" },
                                format!("{}: command #{} for [{}] ended with {:?} but the action was {}", describe(), spawn_no, crate::sys::show(&path), outcome, if ok_follows { "true" } else { "false" }),
                            );
                            return;
                        }
                    } else if ok_follows && !exit0 {
                        rep.fail("C09.true-although-command-failed", format!("{}: command for [{}] ended with {:?} but evaluation went on", describe(), crate::sys::show(&path), outcome));
                        return;
                    }
                    i = next;
                    if ok_follows {
                        i += 1;
                    }
                }
                Item::Rec(_) => {
                    rep.fail("C09.stray-marker", format!("{}: truth marker without a preceding action", describe()));
                    return;
                }
                Item::Spawn(argv, _, _) => {
                    rep.fail(
                        "C09.run-without-reached-file",
                        format!("{}: a command was run although no file reached the action at that point: {:?}", describe(), argv.iter().map(|a| crate::sys::show(a)).collect::<Vec<_>>()),
                    );
                    return;
                }
            }
        }
        if !reached.is_empty() {
            rep.probe("action_reached");
        }
        if !mutated && sc.tests.is_empty() && !rw.diag_owed && rw.may.is_empty() {
            let mut want: Vec<&str> = rw.must.iter().map(|(p, _)| p.as_str()).collect();
            let mut got: Vec<&str> = reached.iter().map(|s| s.as_str()).collect();
            want.sort();
            got.sort();
            if want != got {
                rep.fail(
                    "C09.action-not-reached-once-for-every-entry",
                    format!("{}: no test precedes the action, the tree has {} entries, the action was reached for {}", describe(), want.len(), got.len()),
                );
                return;
            }
        }
        // find's own exit status is unaffected by failing or missing commands
        if sc.follow.is_some() {
            rep.probe("follow_mode");
        }
        if !mutated && sc.follow.is_some() && (rw.diag_owed || !rw.may.is_empty()) {
            // a link that cannot be resolved or closes a cycle: the status is C02's business
        } else if !mutated {
            if obs.status != RunStatus::Exit(0) {
                rep.fail(
                    "C09.exit-status-changed-by-command",
                    format!("{}: find exited with {:?}; stderr {}", describe(), obs.status, crate::sys::lossy(&obs.stderr[..obs.stderr.len().min(300)])),
                );
                return;
            }
        } else {
            // entries unrelated to the mutations are all still visited once
            let mut open: Vec<String> = vec![];
            for m in &sc.find.mutations {
                for s in &sc.starts {
                    let base = s.trim_end_matches('/');
                    let plain = base.trim_start_matches("./");
                    let mp = m.path.trim_end_matches(".new");
                    if mp == plain || mp.starts_with(&format!("{plain}/")) {
                        let rest = mp.strip_prefix(plain).unwrap_or("");
                        open.push(format!("{base}{rest}"));
                        if rest.is_empty() {
                            open.push(s.clone());
                        }
                    }
                }
            }
            let is_open = |p: &str| open.iter().any(|o| p == o || p.starts_with(&format!("{o}/")) || p.starts_with(&format!("{o}.")));
            let mut count: std::collections::BTreeMap<&str, i64> = Default::default();
            for (p, _) in &rw.must {
                *count.entry(p.as_str()).or_insert(0) += 1;
            }
            for p in &reached {
                *count.entry(p.as_str()).or_insert(0) -= 1;
            }
            for (p, c) in count {
                if c != 0 && !is_open(p) {
                    rep.fail(
                        if c > 0 { "C09.unrelated-entry-skipped-after-mutation" } else { "C09.unrelated-entry-repeated-after-mutation" },
                        format!("{}: [{}] is unrelated to the mutated paths {:?} but was evaluated {} time(s) off", describe(), p, open, c),
                    );
                    return;
                }
            }
        }
        if rep.want_sample {
            rep.sample = Some(json!({
                "argv": sc.find.argv, "tree": sc.find.tree, "outcomes": sc.find.outcomes, "mutations": sc.find.mutations,
                "history": items.iter().map(|it| match it {
                    Item::Rec(r) => json!({"record": crate::sys::show(r)}),
                    Item::Spawn(a, c, o) => json!({"spawn": a.iter().map(|x| crate::sys::show(x)).collect::<Vec<_>>(), "cwd": c.as_ref().map(|c| crate::sys::show(c)), "outcome": o}),
                }).collect::<Vec<_>>(),
                "status": obs.status,
            }));
        }
    }

    fn shrink(sc: &Sc) -> Vec<Sc> {
        let mut out = vec![];
        let mut push = |mut s: Sc| {
            s.render();
            out.push(s);
        };
        if sc.starts.len() > 1 {
            for i in 0..sc.starts.len() {
                let mut s = sc.clone();
                s.starts.remove(i);
                push(s);
            }
        }
        for i in 0..sc.find.mutations.len() {
            let mut s = sc.clone();
            s.find.mutations.remove(i);
            push(s);
        }
        if !sc.tests.is_empty() {
            let mut s = sc.clone();
            s.tests.clear();
            push(s);
        }
        if !sc.after.is_empty() {
            let mut s = sc.clone();
            s.after.clear();
            push(s);
        }
        if sc.second.is_some() {
            let mut s = sc.clone();
            s.second = None;
            push(s);
        }
        if sc.follow.is_some() {
            let mut s = sc.clone();
            s.follow = None;
            push(s);
        }
        if sc.depth {
            let mut s = sc.clone();
            s.depth = false;
            push(s);
        }
        for i in 0..sc.templates.len() {
            let mut s = sc.clone();
            s.templates.remove(i);
            push(s);
        }
        for i in 0..sc.templates.len() {
            let t = &sc.templates[i];
            for (ci, ch) in t.char_indices() {
                let mut nt = t.clone();
                nt.replace_range(ci..ci + ch.len_utf8(), "");
                if nt == ";" || nt.is_empty() {
                    continue;
                }
                let mut s = sc.clone();
                s.templates[i] = nt;
                push(s);
            }
        }
        if !sc.find.outcomes.is_empty() {
            let mut s = sc.clone();
            s.find.outcomes.clear();
            push(s);
            for i in 0..sc.find.outcomes.len().min(12) {
                if sc.find.outcomes[i] != Outcome::Exit(0) {
                    let mut s = sc.clone();
                    s.find.outcomes[i] = Outcome::Exit(0);
                    push(s);
                }
            }
        }
        let protect: Vec<String> = std::iter::once("t".to_string())
            .chain(sc.find.mutations.iter().map(|m| m.path.trim_end_matches(".new").to_string()))
            .chain(sc.starts.iter().map(|s| s.trim_start_matches("./").trim_end_matches('/').to_string()))
            .collect();
        for t in shrink_tree(&sc.find.tree, &protect) {
            let mut s = sc.clone();
            s.find.tree = t;
            push(s);
        }
        out
    }

    fn crosscheck(sc: &Sc, ctx: &mut Ctx, bins: &std::path::Path) -> crate::crosscheck::Xc {
        crate::crosscheck::find(&sc.find, ctx, bins, CMD)
    }

    fn rule() -> &'static str {
        "one evaluation = one seeded scenario: a real tree with hostile names, `find START [-sorted] [-depth] TESTS -print0 -exec|-execdir CMD TEMPLATES ; [LATER-TESTS] -printf MARK` where templates carry 0, 1 or several {} per argument, {} embedded in text, and arguments that look like operators; the child-outcome script (exit 0 / 1..255, signals, ENOENT/EACCES/ENOMEM/E2BIG spawn errors) is the fault sequence; in a quarter of the runs the children change the tree (unlink the file, remove or replace a directory about to be entered, create siblings, rename) at a scripted spawn; oracle: over the interleaved history of output records and spawns, every path that reached the action is followed by exactly one spawn with the exact substituted argv (./basename and the parent directory for -execdir), the truth marker follows iff the script said exit 0, find's own status stays 0, and after a mutation every unrelated entry is still evaluated exactly once; also names that are not valid UTF-8, starting points with directory components, template arguments spelled like find's options, a second -exec/-execdir action right after the first, and (no test before the action) every entry of the reference walk must reach it; 1/25 of the runs have real child processes, two thirds of those from a working directory beyond PATH_MAX; 1/150 fill the command line at run time to 300-5200 bytes under what the system accepts (the kernel is asked first); the process environment is a dimension too (variables nobody should listen to such as POSIXLY_CORRECT, TZ with daylight saving, LC_ALL, in a sixth of the runs; descriptor 1 a terminal in a tenth); a slice of the scenarios also goes through the real executables; distinct = distinct abstract trace; non-trivial = a failing child, spawn error or mutation fired, or a template probe hit"
    }

    fn components() -> Value {
        json!({
            "real": ["build_matcher_tree: scan for ';', template split", "SingleExecMatcher::matches: substitution, ./name, current_dir, classification of the status", "AndMatcher short-circuit", "process_dir / walkdir on the real (mutating) tree"],
            "stub": ["fork/exec/wait (fabricated outcomes, hook H2; real simchild processes in 1/25 of the runs and in the binary cross-check)", "stdout (SimSink)", "the children's effect on the tree (scripted mutator at spawn instants)"]
        })
    }

    fn assumptions() -> Vec<&'static str> {
        vec![
            "which entries reach the action is observed (a -print0 marker right before it), not predicted: expression semantics belongs to C01",
            "the parent directory of a path is the lexical one (also under -H/-L, where a component may be a followed link)",
            "after a child changed the tree, only entries outside the affected subtree are demanded",
        ]
    }
}
