//! C05 — xargs input splitting: quoting, -0/-d, independent of read() chunking.

use serde::{Deserialize, Serialize};
use serde_json::{json, Value};

use crate::ctx::{Ctx, RunStatus};
use crate::prop::{Property, Report, Tier};
use crate::rng::Rng;
use crate::world::{ReadOp, B};
use crate::xargs::{self, expect, resolve, run_xargs_with, tokenize, Opt, XargsScenario};
use crate::xgen::*;

#[derive(Clone, Debug, Serialize, Deserialize)]
pub struct Sc {
    pub base: XargsScenario,
    /// every plan is run against the same input; results must agree
    pub plans: Vec<Vec<ReadOp>>,
}

pub struct C05;

const DELIMS: &[&str] = &[
    ",", ":", ";", "a", " ", "\\n", "\\t", "\\\\", "\\x2c", "\\054", "'", "\"", "\\x41",
    // every named escape, and the same bytes spelled numerically
    "\\a", "\\b", "\\f", "\\r", "\\v", "\\x0b", "\\014", "\\x07",
];

fn sep_bytes(cfg: &xargs::Config) -> Vec<u8> {
    match cfg.delim {
        Some(d) => vec![d],
        None => vec![b' ', b'\t', b'\n'],
    }
}

fn gen_mode_opts(rng: &mut Rng) -> Vec<Opt> {
    let mut opts = vec![];
    match rng.weighted(&[10, 6, 6, 1]) {
        0 => {}
        1 => opts.push(Opt::Null),
        2 => opts.push(Opt::Delim(rng.pick(DELIMS).to_string())),
        _ => {
            // both -0 and -d C: the one given last applies
            opts.push(Opt::Null);
            opts.push(Opt::Delim(rng.pick(&[",", "\\n", "a", ":"]).to_string()));
            if rng.chance(1, 2) {
                opts.swap(0, 1);
            }
        }
    }
    if rng.chance(2, 5) {
        // -L 1 reveals which arguments end an input line
        let at = rng.usize_below(opts.len() + 1);
        opts.insert(at, Opt::L(1));
    }
    opts
}

fn gen_input(rng: &mut Rng, cfg: &xargs::Config, long: bool) -> Vec<u8> {
    match cfg.delim {
        Some(d) => {
            if long {
                let mut out = Vec::new();
                let target = rng.urange(4000, 17000);
                while out.len() < target {
                    let nf = rng.urange(1, 40);
                    let part = gen_delim_input(rng, nf, d, true);
                    out.extend_from_slice(&part);
                    if rng.chance(1, 3) {
                        // one long field so that tokens straddle the buffer (BufReader: 8192 bytes)
                        let flen = if rng.chance(1, 3) { rng.urange(4000, 9500) } else { rng.urange(100, 3000) };
                        for _ in 0..flen {
                            let b = *rng.pick(b"ab '\"\\");
                            if b != d {
                                out.push(b);
                            }
                        }
                        out.push(d);
                    }
                }
                out
            } else {
                let nf = rng.small(0, 6);
                gen_delim_input(rng, nf, d, true)
            }
        }
        None => {
            if long {
                let mut out = Vec::new();
                let target = rng.urange(4000, 9000);
                let mut cfgi = DefaultInputCfg::full();
                cfgi.allow_unterminated = false;
                cfgi.allow_odd = false;
                while out.len() < target {
                    let nt = rng.urange(1, 30);
                    let part = gen_default_input(rng, nt, cfgi);
                    out.extend_from_slice(&part);
                    out.push(*rng.pick(&[b' ', b'\n']));
                    if rng.chance(1, 4) {
                        // a long token, possibly quoted, to straddle the edge
                        let q = *rng.pick(&[0u8, b'\'', b'"']);
                        if q != 0 {
                            out.push(q);
                        }
                        for _ in 0..rng.urange(100, 3000) {
                            out.push(*rng.pick(if q != 0 { b"ab \\" as &[u8] } else { b"ab" }));
                        }
                        if q != 0 {
                            out.push(q);
                        }
                        out.push(b'\n');
                    }
                }
                match rng.weighted(&[16, 2, 2]) {
                    0 => {}
                    1 => {
                        out.push(b'\'');
                        out.push(b'x');
                    }
                    _ => {
                        // a quote that is never closed, with a lot of text after it
                        out.push(*rng.pick(&[b'\'', b'"']));
                        for _ in 0..rng.urange(1, 6000) {
                            out.push(*rng.pick(b"ab \t"));
                        }
                    }
                }
                out
            } else if rng.chance(1, 3) {
                let n = rng.urange(0, 24);
                gen_raw_default(rng, n)
            } else {
                let nt = rng.small(0, 6);
                let mut v = gen_default_input(rng, nt, DefaultInputCfg::full());
                if rng.chance(1, 10) && !v.is_empty() {
                    // other white space: CR LF line ends, form feeds, vertical tabs
                    match rng.below(3) {
                        0 => {
                            let mut w = vec![];
                            for b in &v {
                                if *b == b'\n' {
                                    w.push(b'\r');
                                }
                                w.push(*b);
                            }
                            v = w;
                        }
                        _ => {
                            for _ in 0..rng.small(1, 3) {
                                let at = rng.usize_below(v.len() + 1);
                                v.insert(at, *rng.pick(&[b'\r', 0x0b, 0x0c]));
                            }
                        }
                    }
                }
                v
            }
        }
    }
}

fn gen_plans(rng: &mut Rng, input: &[u8], cfg: &xargs::Config, long: bool) -> Vec<Vec<ReadOp>> {
    let states = if cfg.delim.is_none() {
        Some(default_states(input))
    } else {
        None
    };
    let sep = sep_bytes(cfg);
    let nplans = if long { rng.urange(2, 3) } else { rng.urange(2, 5) };
    let mut plans = Vec::new();
    // the first plan is always "one chunk": the unperturbed baseline
    plans.push(vec![]);
    for _ in 1..nplans {
        let fam = pick_family(rng, input.len());
        let eintr = rng.chance(1, 3);
        let error_at = if rng.chance(1, 12) && !input.is_empty() {
            Some(rng.usize_below(input.len() + 1))
        } else {
            None
        };
        plans.push(gen_read_plan(
            rng,
            input,
            states.as_deref(),
            &sep,
            fam,
            eintr,
            error_at,
        ));
    }
    plans
}

fn cmd() -> Vec<String> {
    vec!["CMD".to_string(), "init".to_string()]
}

impl Property for C05 {
    const ID: &'static str = "C05";
    type Sc = Sc;

    fn generate(rng: &mut Rng, _tier: Tier) -> Sc {
        let opts = gen_mode_opts(rng);
        let cfg = resolve(&opts);
        let long = rng.chance(1, 12);
        let mut input = gen_input(rng, &cfg, long);
        if rng.chance(1, 40) {
            // bytes that mean something to other programs at the start of a file
            let magic: Vec<u8> = rng.pick(MAGIC_PREFIXES).iter().copied().filter(|b| Some(*b) != cfg.delim).collect();
            input.splice(0..0, magic);
        }
        if long && rng.chance(1, 3) {
            // a total length that is exactly a multiple of the reader's buffer sizes, or one off
            let unit = *rng.pick(&[4096usize, 8192]);
            let want = (input.len() / unit + 1) * unit + *rng.pick(&[0usize, 0, 1, unit - 1]);
            let filler = if cfg.delim == Some(b'p') { b'q' } else { b'p' };
            // the last byte stays what it was (a separator, a quote, a letter)
            let last = input.pop();
            while input.len() + usize::from(last.is_some()) < want {
                input.push(filler);
            }
            input.extend(last);
        }
        let plans = gen_plans(rng, &input, &cfg, long);
        let mut opts = opts;
        add_neutral_xargs_opts(rng, &mut opts);
        // no command at all: the built-in echo prints what a command would have received
        let echo_mode = rng.chance(1, 15) && !opts.iter().any(|o| matches!(o, Opt::Verbose));
        let mut input = input;
        let mut plans = plans;
        let mut extra = xargs::XExtra::default();
        let mut note: String = if long { "long".into() } else { "short".into() };
        if rng.chance(1, 6000) {
            // more than 65535 arguments, one per line
            let n = *rng.pick(&[65_535usize, 65_536, 65_537, 70_000]);
            let sepb = cfg.delim.unwrap_or(b'\n');
            let mut v = Vec::with_capacity(n * 3);
            for i in 0..n {
                v.push(if sepb == b'a' { b'x' } else { b'a' } + (i % 20) as u8);
                v.push(b'0' + (i % 10) as u8);
                v.push(sepb);
            }
            if sepb != b'a' && sepb != b'0' {
                // (a few large invocations: the count of arguments matters here, not of runs)
                opts.retain(|o| !matches!(o, Opt::L(_)));
                opts.push(Opt::N(5000));
                input = v;
                plans = vec![vec![], vec![ReadOp::Data(4095), ReadOp::Data(4097), ReadOp::Intr, ReadOp::Data(8192)]];
                note = "many arguments".into();
            }
        }
        match rng.weighted(&[940, 30, 20, 10]) {
            1 => {
                // the stream is a real file that xargs opens itself (no seam, no plans)
                if !opts.iter().any(|o| matches!(o, Opt::ArgFile)) {
                    opts.push(Opt::ArgFile);
                }
                extra.real_arg_file = Some(xargs::ArgFileKind::Regular);
                plans = vec![vec![]];
                note = "real -a file".into();
            }
            2 => {
                // ... a file of the proc file system: regular by its metadata, size 0, content
                // only known by reading it (the thread's name and a newline)
                if !opts.iter().any(|o| matches!(o, Opt::ArgFile)) {
                    opts.push(Opt::ArgFile);
                }
                extra.real_arg_file = Some(xargs::ArgFileKind::ProcComm);
                let mut name: Vec<u8> = input.iter().copied().map(|b| if b == 0 || b == b'\n' { b' ' } else { b }).take(15).collect();
                if name.is_empty() {
                    name = b"a 'b c' d".to_vec();
                }
                name.push(b'\n');
                input = name;
                plans = vec![vec![]];
                note = "real -a /proc/thread-self/comm".into();
            }
            3 => {
                // a very long run of separators between two arguments, on a small stack
                let sepb = match cfg.delim {
                    Some(d) => d,
                    None => *rng.pick(&[b' ', b'\n', b'\t']),
                };
                let a: &[u8] = if sepb == b'a' { b"x" } else { b"a" };
                let b: &[u8] = if sepb == b'b' { b"y" } else { b"b" };
                let n = rng.urange(20_000, 300_000);
                let mut v = Vec::with_capacity(n + 4);
                if rng.chance(1, 2) {
                    v.extend_from_slice(a);
                }
                v.extend(std::iter::repeat(sepb).take(n));
                v.extend_from_slice(b);
                if rng.chance(1, 2) {
                    v.push(sepb);
                }
                input = v;
                plans = vec![vec![], vec![ReadOp::Data(1), ReadOp::Data(4095), ReadOp::Data(4097), ReadOp::Intr, ReadOp::Data(8192)]];
                extra.stack_kib = Some(*rng.pick(&[512u32, 1024, 2048]));
                note = "separator run".into();
            }
            _ => {
                if long && rng.chance(1, 8) {
                    extra.stack_kib = Some(1024);
                }
            }
        }
        extra.ambient.env = crate::ambient::Ambient::gen_env(rng, 8);
        Sc {
            base: XargsScenario {
                opts,
                cmd: if echo_mode { vec!["echo".to_string()] } else { cmd() },
                input: B(input),
                read_plan: vec![],
                outcomes: vec![],
                rlimit_stack: None,
                env: None,
                real: None,
                note,
                decoy_in_cwd: false,
                echo_mode,
                extra,
            },
            plans,
        }
    }

    fn budget(tier: Tier) -> u64 {
        match tier {
            Tier::Quick => 400_000,
            Tier::Thorough => 6_000_000,
        }
    }

    // Bounded sweep: every string up to length 6 over a 7-symbol alphabet,
    // every cut set, in default mode (thorough tier only).
    fn sweep_len(tier: Tier) -> u64 {
        match tier {
            Tier::Quick => sweep_total(4),
            Tier::Thorough => sweep_total(6),
        }
    }

    fn sweep_item(i: u64) -> Option<Sc> {
        Some(sweep_scenario(i))
    }

    fn check(sc: &Sc, ctx: &mut Ctx, rep: &mut Report) {
        let cfg = resolve(&sc.base.opts);
        let input = &sc.base.input.0;
        let mut spec = tokenize(&cfg, input);
        let exp = expect(&sc.base, &cfg, &spec);
        match sc.base.extra.real_arg_file {
            Some(xargs::ArgFileKind::Regular) => rep.probe("argument_file_opened_and_read_for_real"),
            Some(xargs::ArgFileKind::ProcComm) => rep.probe("argument_file_in_proc_with_size_0"),
            None => {}
        }
        if sc.base.extra.stack_kib.is_some() {
            rep.probe("small_stack");
        }
        if sc.base.note == "many arguments" {
            rep.probe("more_than_65535_arguments");
            rep.want_sample = false;
        }
        if sc.base.note == "separator run" {
            rep.probe("tens_of_thousands_of_consecutive_separators");
        }
        if !sc.base.extra.ambient.env.is_empty() {
            rep.probe("environment_variables_nobody_should_listen_to");
        }
        let has_null = sc.base.opts.iter().any(|o| matches!(o, Opt::Null));
        let has_delim = sc.base.opts.iter().any(|o| matches!(o, Opt::Delim(_)));
        if has_null && has_delim {
            // the option given last decides (GNU xargs, the code's own normalize_options and
            // its xargs_null_conflict test); see assumptions
            rep.probe("both_null_and_delimiter_options");
        }
        if cfg.delim.is_none() && input.iter().any(|b| matches!(b, b'\r' | 0x0b | 0x0c)) {
            // the statement speaks of blanks and newlines only: what CR, VT and FF do is left
            // open, but it must not depend on the chunking either
            spec.unspecified.push("cr-vt-ff");
            rep.probe("input_with_cr_vt_ff");
        }
        let states = if cfg.delim.is_none() {
            Some(default_states(input))
        } else {
            None
        };
        let sep = sep_bytes(&cfg);
        if spec.unterminated {
            rep.probe("input_with_unterminated_quote");
        }
        if input.len() >= 4096 {
            rep.probe("input_longer_than_reader_buffer");
        }
        if std::str::from_utf8(input).is_err() {
            rep.probe("input_not_valid_utf8");
        }
        let ncmd = sc.base.cmd.len();
        let mut baseline: Option<(Vec<Vec<Vec<u8>>>, RunStatus)> = None;
        let mut echo_baseline: Option<(Vec<u8>, RunStatus)> = None;
        let mut samples = vec![];
        for (pi, plan) in sc.plans.iter().enumerate() {
            let obs = run_xargs_with(&sc.base, plan, ctx);
            rep.executions += 1;
            if sc.base.echo_mode {
                // judged on what xargs itself printed: one line per invocation, the arguments
                // joined by single blanks, every byte as it was in the input
                rep.probe("built_in_echo");
                if let RunStatus::Panic(msg) = &obs.status {
                    rep.fail("C05.panic", format!("plan #{pi}: xargs panicked: {msg}"));
                    break;
                }
                if plan.iter().any(|o| matches!(o, ReadOp::Err(_))) {
                    continue;
                }
                let mut want: Vec<u8> = vec![];
                for argv in &exp.spawns {
                    want.extend_from_slice(&argv[ncmd.min(argv.len())..].join(&b' '));
                    want.push(b'\n');
                }
                if spec.unspecified.is_empty() && (obs.stdout != want || obs.status != RunStatus::Exit(exp.exit)) {
                    rep.fail(
                        "C05.echo-output",
                        format!(
                            "plan #{pi}: input [{}] opts {:?}: the built-in echo should print [{}] and exit {}, printed [{}] and ended with {:?}",
                            crate::sys::show(&input[..input.len().min(200)]),
                            sc.base.opts,
                            crate::sys::show(&want[..want.len().min(300)]),
                            exp.exit,
                            crate::sys::show(&obs.stdout[..obs.stdout.len().min(300)]),
                            obs.status
                        ),
                    );
                    break;
                }
                match &echo_baseline {
                    None => echo_baseline = Some((obs.stdout.clone(), obs.status.clone())),
                    Some((b_out, b_status)) => {
                        if *b_out != obs.stdout || *b_status != obs.status {
                            rep.fail(
                                "C05.chunking-dependence",
                                format!(
                                    "input [{}] opts {:?}: the built-in echo printed [{}] under plan #0 but [{}] under plan #{pi}",
                                    crate::sys::show(&input[..input.len().min(200)]),
                                    sc.base.opts,
                                    crate::sys::show(&b_out[..b_out.len().min(200)]),
                                    crate::sys::show(&obs.stdout[..obs.stdout.len().min(200)])
                                ),
                            );
                            break;
                        }
                    }
                }
                continue;
            }
            account_reads(&obs.log, input, states.as_deref(), &sep, rep);
            trace_status(&obs, rep);
            let spawns = obs.spawn_argvs();
            if rep.want_sample {
                samples.push(json!({
                    "plan": plan,
                    "status": obs.status,
                    "invocations": spawns.iter().map(|a| a.iter().map(|x| crate::sys::show(x)).collect::<Vec<_>>()).collect::<Vec<_>>(),
                    "stderr": crate::sys::lossy(&obs.stderr),
                }));
            }
            if let RunStatus::Panic(msg) = &obs.status {
                rep.fail("C05.panic", format!("plan #{pi}: xargs panicked: {msg}"));
                break;
            }
            if obs.log.budget_exhausted {
                rep.fail(
                    "C05.no-progress",
                    format!("plan #{pi}: step budget exhausted (reader does not make progress)"),
                );
                break;
            }
            let has_err = plan.iter().any(|o| matches!(o, ReadOp::Err(_)));
            // every invocation starts with the unchanged command
            for argv in &spawns {
                if argv.len() < ncmd
                    || argv[..ncmd]
                        .iter()
                        .zip(&sc.base.cmd)
                        .any(|(a, c)| a != c.as_bytes())
                {
                    rep.fail(
                        "C05.command-changed",
                        format!("plan #{pi}: invocation does not start with the command: {}", describe_spawns(&[argv.clone()])),
                    );
                }
            }
            if rep.violation.is_some() {
                break;
            }
            let observed: Vec<Vec<u8>> = spawns
                .iter()
                .flat_map(|argv| argv[ncmd..].iter().cloned())
                .collect();
            if has_err {
                // terminal read error: status 1, delivered arguments are a
                // prefix of the reference sequence, never altered
                let reference: Vec<&Vec<u8>> = spec.toks.iter().map(|t| &t.bytes).collect();
                let obs_f: Vec<&Vec<u8>> = observed.iter().filter(|t| !t.is_empty()).collect();
                let ref_f: Vec<&Vec<u8>> = reference.into_iter().filter(|t| !t.is_empty()).collect();
                let err_fired = obs.log.events.iter().any(|e| {
                    matches!(
                        e,
                        crate::world::Event::Read {
                            got: crate::world::ReadGot::Err(_),
                            ..
                        }
                    )
                });
                if err_fired && !spec.unspecified.is_empty() {
                    continue;
                }
                if err_fired {
                    if obs_f.len() > ref_f.len() || obs_f.iter().zip(&ref_f).any(|(a, b)| a != b) {
                        rep.fail(
                            "C05.error-path-altered-arguments",
                            format!(
                                "plan #{pi}: after a read error the delivered arguments are not a prefix of the input's arguments: {}",
                                describe_spawns(&spawns)
                            ),
                        );
                    } else if !spec.unterminated && obs.status != RunStatus::Exit(1) {
                        rep.fail(
                            "C05.error-path-status",
                            format!("plan #{pi}: read error but exit status {:?}", obs.status),
                        );
                    }
                    continue;
                }
            }
            if spec.unspecified.is_empty() {
                // compare with the reference run
                if spawns != exp.spawns {
                    let exp_tokens: Vec<Vec<u8>> = exp
                        .spawns
                        .iter()
                        .flat_map(|argv| argv[ncmd..].iter().cloned())
                        .collect();
                    let class = if observed == exp_tokens {
                        "C05.line-structure"
                    } else if observed
                        .iter()
                        .filter(|t| !t.is_empty())
                        .cloned()
                        .collect::<Vec<_>>()
                        == exp_tokens
                    {
                        "C05.spurious-empty-argument"
                    } else if observed.concat() == exp_tokens.concat() {
                        "C05.wrong-split"
                    } else if observed.len() == exp_tokens.len()
                        && observed
                            .iter()
                            .zip(&exp_tokens)
                            .all(|(a, b)| String::from_utf8_lossy(a) == String::from_utf8_lossy(b))
                    {
                        "C05.bytes-altered-lossy-utf8"
                    } else if exp.own_error == Some("unterminated-quote")
                        && obs.status == RunStatus::Exit(0)
                    {
                        "C05.unterminated-quote-accepted"
                    } else {
                        "C05.arguments-differ"
                    };
                    rep.fail(
                        class,
                        format!(
                            "plan #{pi}: input [{}] opts {:?}: expected invocations {} but got {}",
                            crate::sys::show(&input[..input.len().min(200)]),
                            sc.base.opts,
                            describe_spawns(&exp.spawns),
                            describe_spawns(&spawns)
                        ),
                    );
                    break;
                }
                if obs.status != RunStatus::Exit(exp.exit) {
                    rep.fail(
                        if exp.own_error == Some("unterminated-quote") {
                            "C05.unterminated-quote-status"
                        } else {
                            "C05.exit-status"
                        },
                        format!(
                            "plan #{pi}: input [{}]: expected exit {} got {:?}; stderr: {}",
                            crate::sys::show(&input[..input.len().min(200)]),
                            exp.exit,
                            obs.status,
                            crate::sys::lossy(&obs.stderr)
                        ),
                    );
                    break;
                }
            }
            // metamorphic: all error-free plans agree with each other
            match &baseline {
                None => baseline = Some((spawns, obs.status.clone())),
                Some((b_spawns, b_status)) => {
                    if *b_spawns != spawns || *b_status != obs.status {
                        rep.fail(
                            "C05.chunking-dependence",
                            format!(
                                "input [{}] opts {:?}: plan #0 gives {} ({:?}) but plan #{pi} {:?} gives {} ({:?})",
                                crate::sys::show(&input[..input.len().min(200)]),
                                sc.base.opts,
                                describe_spawns(b_spawns),
                                b_status,
                                &plan[..plan.len().min(12)],
                                describe_spawns(&spawns),
                                obs.status
                            ),
                        );
                        break;
                    }
                }
            }
        }
        if rep.want_sample {
            rep.sample = Some(json!({
                "scenario": sc,
                "reference_tokens": spec.toks.iter().map(|t| json!({"bytes": crate::sys::show(&t.bytes), "ends_line": t.hard})).collect::<Vec<_>>(),
                "unspecified_by_statement": spec.unspecified,
                "runs": samples,
            }));
        }
    }

    fn shrink(sc: &Sc) -> Vec<Sc> {
        let mut out = vec![];
        let input = &sc.base.input.0;
        // fewer plans
        if sc.plans.len() > 1 {
            for i in (0..sc.plans.len()).rev() {
                let mut s = sc.clone();
                s.plans.remove(i);
                out.push(s);
            }
        }
        // drop an option
        for i in 0..sc.base.opts.len() {
            let mut s = sc.clone();
            s.base.opts.remove(i);
            out.push(s);
        }
        // shorten the input: halves, then single bytes (plans are rebased)
        let rebase = |s: &mut Sc, removed_from: usize, removed: usize| {
            for plan in s.plans.iter_mut() {
                for op in plan.iter_mut() {
                    if let ReadOp::Cut(p) = op {
                        if *p > removed_from {
                            *p = p.saturating_sub(removed).max(removed_from);
                        }
                    }
                }
            }
        };
        let n = input.len();
        if n > 1 {
            for (a, b) in [(0, n / 2), (n / 2, n)] {
                let mut s = sc.clone();
                s.base.input.0.drain(a..b);
                rebase(&mut s, a, b - a);
                out.push(s);
            }
        }
        if n <= 64 {
            for i in 0..n {
                let mut s = sc.clone();
                s.base.input.0.remove(i);
                rebase(&mut s, i, 1);
                out.push(s);
            }
        } else {
            let step = n / 16;
            for k in 0..16 {
                let a = k * step;
                let b = (a + step).min(n);
                let mut s = sc.clone();
                s.base.input.0.drain(a..b);
                rebase(&mut s, a, b - a);
                out.push(s);
            }
        }
        // simplify plans: drop single ops
        for (pi, plan) in sc.plans.iter().enumerate() {
            if plan.len() > 8 {
                let mut s = sc.clone();
                s.plans[pi].truncate(plan.len() / 2);
                out.push(s);
                let mut s = sc.clone();
                s.plans[pi].drain(..plan.len() / 2);
                out.push(s);
            } else {
                for oi in 0..plan.len() {
                    let mut s = sc.clone();
                    s.plans[pi].remove(oi);
                    out.push(s);
                }
            }
        }
        out
    }

    fn crosscheck(sc: &Sc, ctx: &mut Ctx, bins: &std::path::Path) -> crate::crosscheck::Xc {
        let plan = sc.plans.last().cloned().unwrap_or_default();
        crate::crosscheck::xargs(&sc.base, &plan, ctx, bins)
    }

    fn rule() -> &'static str {
        "one evaluation = one seeded (mode, input) pair executed through xargs_main under 2-5 read plans (cut sets, EINTR bursts, terminal EIO) plus, after the seeded runs, an exhaustive sweep item (one short string under one cut set); also both -0 and -d (last wins), every named -d escape, fields beyond 8 KiB, long text after an unclosed quote, CR/VT/FF (compared across read plans only); 5% of the runs read the stream from a real -a FILE (2% from /proc/thread-self/comm: regular, size 0), 1% have 20000-300000 consecutive separators and run on a thread with 512 KiB-2 MiB of stack; environment variables nobody should listen to in an eighth of the runs; a slice of the scenarios also goes through the real xargs executable; distinct = distinct abstract trace (sequence of read results with log2-bucketed sizes, spawn arities/outcomes, exit status); non-trivial = at least one fault fired (short read, EINTR, read error) or a boundary probe hit (cut after backslash / inside quotes / inside a multi-byte character / at a separator / at a 4096 multiple, unterminated quote, non-UTF-8 input)"
    }

    fn components() -> Value {
        json!({
            "real": ["clap option parsing", "normalize_options", "parse_delimiter", "WhitespaceDelimitedArgumentReader", "ByteDelimitedArgumentReader (with std BufReader)", "limiter chain", "process_input", "CommandBuilder::execute up to Command::status", "xargs_main exit mapping"],
            "stub": ["stdin byte source (SimStream via hook H1)", "fork/exec/wait (fabricated ExitStatus via hook H2)"]
        })
    }

    fn assumptions() -> Vec<&'static str> {
        vec![
            "the seam's view of a child (Command::get_program/get_args) is what a real child receives (validated by the pass-through calibration of C19/C06)",
            "inputs avoid \\r \\f \\v, NUL outside -0, and for exact comparison newline inside quotes, a final lone backslash and explicit empty quotes (the statement is silent on them; they are still run and compared across read plans)",
            "a read error is terminal (sticky), EINTR is finite",
            "when both -0 and -d C are given the option given last selects the delimiter (GNU xargs; the repository's own xargs_null_conflict test)",
            "CR, VT and FF in default mode are only compared across read plans, not against the reference tokenizer (the statement names blanks and newlines only)",
        ]
    }
}

// ---------------------------------------------------------------------------
// Exhaustive small-scope sweep
// ---------------------------------------------------------------------------

const SWEEP_ALPHABET: &[&[u8]] = &[b" ", b"\n", b"'", b"\"", b"\\", b"a", MB2];

/// Number of (string, cut set) pairs for strings of up to `maxlen` symbols.
/// Cut sets range over symbol boundaries *and* the inside of the 2-byte
/// character, i.e. over all byte positions.
pub fn sweep_total(maxlen: u32) -> u64 {
    // Σ_len 7^len strings; cut sets enumerated over symbol boundaries only
    // (2^(len-1)) plus one variant that also cuts inside every multi-byte
    // character — counted as 2^(len-1) * 2 for len >= 1.
    let mut total = 0u64;
    for len in 0..=maxlen {
        let strings = 7u64.pow(len);
        let cuts = if len == 0 { 1 } else { 1u64 << (len - 1) };
        total += strings * cuts;
    }
    total
}

fn sweep_scenario(mut i: u64) -> Sc {
    let mut len = 0u32;
    loop {
        let strings = 7u64.pow(len);
        let cuts = if len == 0 { 1 } else { 1u64 << (len - 1) };
        if i < strings * cuts {
            break;
        }
        i -= strings * cuts;
        len += 1;
    }
    let cuts_n = if len == 0 { 1 } else { 1u64 << (len - 1) };
    let mut sidx = i / cuts_n;
    let cutmask = i % cuts_n;
    let mut input = Vec::new();
    let mut bounds = vec![];
    for _ in 0..len {
        let sym = SWEEP_ALPHABET[(sidx % 7) as usize];
        sidx /= 7;
        input.extend_from_slice(sym);
        bounds.push(input.len());
    }
    let mut plan = vec![];
    for k in 0..len.saturating_sub(1) {
        if cutmask >> k & 1 == 1 {
            plan.push(ReadOp::Cut(bounds[k as usize]));
        }
    }
    // second plan: same cuts plus a cut inside every multi-byte character and
    // an EINTR before each chunk
    let mut plan2 = vec![];
    for p in 1..input.len() {
        let at_bound = bounds.contains(&p);
        let k = bounds.iter().position(|b| *b == p);
        let chosen = match k {
            Some(k) if (k as u32) < len.saturating_sub(1) => cutmask >> k & 1 == 1,
            _ => false,
        };
        if (at_bound && chosen) || is_utf8_continuation(input[p]) {
            plan2.push(ReadOp::Intr);
            plan2.push(ReadOp::Cut(p));
        }
    }
    Sc {
        base: XargsScenario {
            // -L 1 shows the argument sequence (concatenation) and the line
            // structure (batch boundaries) at once
            opts: vec![Opt::L(1)],
            cmd: cmd(),
            input: B(input),
            read_plan: vec![],
            outcomes: vec![],
            rlimit_stack: None,
            env: None,
            real: None,
            note: "sweep".into(),
            decoy_in_cwd: false,
            echo_mode: false,
            extra: Default::default(),
        },
        plans: vec![vec![], plan, plan2],
    }
}
