pub mod c05;

pub const ALL: &[&str] = &["C05"];
