pub mod c02;
pub mod c04;
pub mod c05;
pub mod c06;
pub mod c07;
pub mod c08;
pub mod c09;
pub mod c10;
pub mod c15;
pub mod c19;
pub mod c20;

pub const ALL: &[&str] = &["C02", "C04", "C05", "C06", "C07", "C08", "C09", "C10", "C15", "C19", "C20"];
