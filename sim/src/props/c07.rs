//! C07 — find -print0 paths are byte-exact and survive the pipe into xargs -0.
//!
//! Two real programs joined by a simulated pipe, in one process: find_main
//! writes into the sink (short writes, EINTR), the accepted bytes become the
//! stdin stream of xargs_main, re-cut independently of the writer's chunks.

use serde::{Deserialize, Serialize};
use serde_json::{json, Value};

use crate::ctx::{Ctx, RunStatus};
use crate::fgen::*;
use crate::find::{account_find, run_find_prebuilt, FindScenario};
use crate::prop::{Property, Report, Tier};
use crate::rng::Rng;
use crate::tree::{self, FollowMode, RefWalk, WalkCfg};
use crate::world::{Outcome, ReadOp, WriteOp, B};
use crate::xargs::{run_xargs, Opt, XargsScenario};
use crate::xgen::{account_reads, describe_spawns};

#[derive(Clone, Debug, Serialize, Deserialize)]
pub struct Sc {
    pub find: FindScenario,
    pub start: String,
    pub sorted: bool,
    /// -print0 (true) or -print
    pub nul: bool,
    /// reader side of the pipe: chunk sizes, cycled; 0 = "as much as asked"
    pub read_sizes: Vec<usize>,
    pub read_intr_every: usize,
    pub outcomes: Vec<Outcome>,
    pub xargs_n: Option<usize>,
    /// "-H", "-L" (before the starting point) or "-follow" (in the expression)
    #[serde(default)]
    pub follow: Option<String>,
    /// the starting point is given through `-files0-from FILE` instead of the command line
    #[serde(default)]
    pub files0: bool,
    /// `xargs -0 -I{} CMD -- {}`: one invocation per path, the path substituted unmodified
    #[serde(default)]
    pub xargs_replace: bool,
}

const STARTS_FILE: &str = ".starts0";

impl Sc {
    fn render(&mut self) {
        let mut a = vec![];
        if let Some(f) = &self.follow {
            if f != "-follow" {
                a.push(f.clone());
            }
        }
        if self.files0 {
            a.push("-files0-from".into());
            a.push(STARTS_FILE.into());
        } else {
            a.push(self.start.clone());
        }
        if self.follow.as_deref() == Some("-follow") {
            a.push("-follow".into());
        }
        if self.sorted {
            a.push("-sorted".into());
        }
        a.push(if self.nul { "-print0".into() } else { "-print".into() });
        self.find.argv = a;
        self.find.record_delim = if self.nul { 0 } else { b'\n' };
    }
}

pub struct C07;

/// A chain of fifteen directories with 255-byte names and, at its end, files whose paths (as
/// find prints them) are 4093, 4094 and 4095 bytes long: the longest a single system call
/// takes. Built and walked with relative names from inside the tree's parent.
fn gen_path_max(rng: &mut Rng) -> Sc {
    use crate::tree::Node;
    let mut spec = crate::tree::TreeSpec::default();
    let mut p = String::from("t");
    spec.nodes.push(Node::Dir { path: p.clone() });
    for k in 0..15 {
        p = format!("{p}/{}{}", (b'a' + k as u8) as char, "d".repeat(254));
        spec.nodes.push(Node::Dir { path: p.clone() });
        if rng.chance(1, 4) {
            spec.nodes.push(Node::File { path: format!("{p}/s{k}"), size: 0, token: 0, atime_ns: None, mtime_ns: None });
        }
    }
    // p is 1 + 15 * 256 = 3841 bytes long
    for (i, total) in [4093usize, 4094, 4095].iter().enumerate() {
        let name_len = total - p.len() - 1;
        spec.nodes.push(Node::File { path: format!("{p}/{}{}", i, "f".repeat(name_len - 1)), size: 0, token: 0, atime_ns: None, mtime_ns: None });
    }
    let mut find = FindScenario::new(spec, vec![]);
    if rng.chance(1, 2) {
        find.sink_plan = (0..rng.urange(5, 60)).map(|_| if rng.chance(1, 5) { WriteOp::Intr } else { WriteOp::Accept(*rng.pick(&[1usize, 7, 100, 4095, 4096])) }).collect();
    }
    let mut sc = Sc {
        find,
        start: "t".into(),
        sorted: rng.chance(1, 2),
        nul: rng.chance(5, 6),
        read_sizes: vec![*rng.pick(&[0usize, 1, 4096, 4095])],
        read_intr_every: 0,
        outcomes: vec![],
        xargs_n: if rng.chance(1, 2) { Some(1) } else { None },
        follow: None,
        files0: false,
        xargs_replace: false,
    };
    sc.render();
    sc
}

impl Property for C07 {
    const ID: &'static str = "C07";
    type Sc = Sc;

    fn generate(rng: &mut Rng, _tier: Tier) -> Sc {
        if rng.chance(1, 80) {
            return gen_path_max(rng);
        }
        if rng.chance(1, 8000) {
            // more than 65535 records through the pipe
            let mut spec = crate::tree::TreeSpec::default();
            spec.nodes.push(crate::tree::Node::Dir { path: "t".into() });
            spec.bulk.push(crate::tree::Bulk { dir: "t".into(), count: *rng.pick(&[65_534usize, 65_535, 65_536, 70_000]), kind: crate::tree::BulkKind::File });
            let find = FindScenario::new(spec, vec![]);
            let mut sc = Sc {
                find,
                start: "t".into(),
                sorted: true,
                nul: true,
                read_sizes: vec![*rng.pick(&[0usize, 4096, 8192])],
                read_intr_every: 0,
                outcomes: vec![],
                xargs_n: if rng.chance(1, 2) { Some(*rng.pick(&[1000usize, 65_536, 70_000])) } else { None },
                follow: None,
                files0: false,
                xargs_replace: false,
            };
            sc.render();
            return sc;
        }
        // the starting point itself may be any name: only blanks, a newline in it, multi-byte
        let root = rng.pick(&["t", "t", "t", "t", "t", "t", " ", "  ", "a b", "\t", "\u{e9}", "t\n", "'", "{}", "\u{feff}inbox", "\u{feff}", "#!x"]).to_string();
        let cfg = TreeCfg {
            roots: vec![root.clone()],
            max_entries: *rng.pick(&[0, 3, 8, 15, 25]),
            max_depth: rng.urange(1, 4),
            names: if rng.chance(9, 10) { NameStyle::Hostile } else { NameStyle::Simple },
            link_weight: 8,
            allow_loops: false,
            outside: false,
            fifo: false,
            raw_byte: None,
        };
        let spec = gen_tree(rng, &cfg);
        let start = match rng.below(4) {
            0 | 1 => root.clone(),
            2 => format!("./{root}"),
            _ => format!("{root}/"),
        };
        let sink_plan: Vec<WriteOp> = match rng.weighted(&[3, 3, 2]) {
            0 => vec![],
            1 => (0..rng.urange(5, 200))
                .map(|_| {
                    if rng.chance(1, 5) {
                        WriteOp::Intr
                    } else {
                        WriteOp::Accept(*rng.pick(&[1usize, 1, 2, 3, 7, 100]))
                    }
                })
                .collect(),
            _ => (0..2000).map(|_| WriteOp::Accept(1)).collect(),
        };
        let read_sizes: Vec<usize> = match rng.weighted(&[2, 2, 3, 1]) {
            0 => vec![0],
            1 => vec![1],
            2 => (0..rng.urange(1, 12)).map(|_| *rng.pick(&[1usize, 2, 3, 5, 8, 13, 64, 300, 0])).collect(),
            _ => vec![4096],
        };
        let mut find = FindScenario::new(spec, vec![]);
        find.gen_extras(rng, true);
        find.sink_plan = sink_plan;
        let mut sc = Sc {
            find,
            start,
            sorted: rng.chance(3, 4),
            nul: rng.chance(5, 6),
            read_sizes,
            read_intr_every: *rng.pick(&[0usize, 0, 2, 5, 17]),
            outcomes: if rng.chance(1, 3) {
                (0..rng.small(1, 4)).map(|_| if rng.chance(1, 2) { Outcome::Exit(*rng.pick(&[1, 7, 125])) } else { Outcome::Exit(0) }).collect()
            } else {
                vec![]
            },
            xargs_n: if rng.chance(1, 3) { Some(*rng.pick(&[1usize, 2, 3, 10])) } else { None },
            follow: if rng.chance(1, 4) { Some(rng.pick(&["-H", "-L", "-L", "-follow"]).to_string()) } else { None },
            files0: rng.chance(1, 8),
            xargs_replace: rng.chance(1, 5),
        };
        if sc.xargs_replace {
            sc.xargs_n = None;
        }
        sc.render();
        sc
    }

    fn budget(tier: Tier) -> u64 {
        match tier {
            Tier::Quick => 150_000,
            Tier::Thorough => 3_000_000,
        }
    }

    fn check(sc: &Sc, ctx: &mut Ctx, rep: &mut Report) {
        let mut root = ctx.scratch.join("A");
        let _ = std::env::set_current_dir(&ctx.scratch);
        crate::sys::wipe(&root);
        std::fs::create_dir_all(&root).expect("scratch root");
        if sc.find.tree.bulk.iter().any(|b| b.count >= 65_534) {
            rep.probe("more_than_65535_records_through_the_pipe");
            rep.want_sample = false;
        }
        if sc.find.tree.nodes.iter().any(|n| n.path().len() > 4000) {
            // paths at PATH_MAX - 1: everything happens with relative names from here
            let _ = std::env::set_current_dir(&root);
            root = std::path::PathBuf::new();
            rep.probe("paths_of_4093_to_4095_bytes");
            rep.want_sample = false;
        }
        if let Err(e) = tree::build(&root, &sc.find.tree) {
            rep.fail("C07.HARNESS-tree-build", format!("cannot build tree: {e}"));
            return;
        }
        if sc.files0 {
            let mut list = sc.start.as_bytes().to_vec();
            list.push(0);
            let _ = std::fs::write(root.join(STARTS_FILE), list);
            rep.probe("starting_point_through_files0_from");
        } else {
            let _ = std::fs::remove_file(root.join(STARTS_FILE));
        }
        let wcfg = WalkCfg {
            follow: match sc.follow.as_deref() {
                Some("-H") => FollowMode::H,
                Some(_) => FollowMode::L,
                None => FollowMode::P,
            },
            mindepth: 0,
            maxdepth: usize::MAX,
            depth_first: false,
            sorted: true,
        };
        let mut rw = RefWalk::default();
        tree::ref_walk(&root, &sc.start, &wcfg, &mut rw);
        let delim = if sc.nul { 0u8 } else { b'\n' };
        let reference: Vec<Vec<u8>> = rw.must.iter().map(|(p, _)| p.as_bytes().to_vec()).collect();
        for p in &reference {
            if p.contains(&b'\n') {
                rep.probe("path_contains_newline");
            }
            if p.windows(2).any(|w| w == b"/-") {
                rep.probe("name_with_leading_dash");
            }
            if p.iter().any(|b| b"'\"\\".contains(b)) {
                rep.probe("path_contains_quote_or_backslash");
            }
            if p.iter().any(|b| *b >= 0x80) {
                rep.probe("path_contains_multibyte_character");
            }
            if p.ends_with(b" ") || p.windows(2).any(|w| w == b"/ ") {
                rep.probe("name_begins_or_ends_with_blank");
            }
        }
        // ---- step 1: find into the simulated pipe
        let obs = run_find_prebuilt(&sc.find, ctx, root);
        rep.executions += 1;
        account_find(&obs, rep);
        if let RunStatus::Panic(msg) = &obs.status {
            rep.fail("C07.panic", format!("argv {:?}: find panicked: {msg}", sc.find.argv));
            return;
        }
        if obs.log.budget_exhausted {
            rep.fail("C07.no-progress", format!("argv {:?}: output budget exhausted", sc.find.argv));
            return;
        }
        if sc.follow.is_some() {
            rep.probe("follow_mode");
        }
        if rw.diag_owed || !rw.may.is_empty() {
            // a link that cannot be resolved (or closes a cycle): C02's territory
            rep.probe("walk_diagnostic_owed_not_judged");
            return;
        }
        if obs.status != RunStatus::Exit(0) {
            rep.fail("C07.find-status", format!("argv {:?}: status {:?} stderr {}", sc.find.argv, obs.status, crate::sys::lossy(&obs.stderr)));
            return;
        }
        let stream = obs.log.sink.clone();
        let mut expected_stream = Vec::new();
        let mut ordered = reference.clone();
        if !sc.sorted {
            // without -sorted only the multiset of records is determined
            ordered.sort();
        }
        for p in &ordered {
            expected_stream.extend_from_slice(p);
            expected_stream.push(delim);
        }
        let stream_ok = if sc.sorted {
            stream == expected_stream
        } else if sc.nul {
            let (mut recs, tail) = obs.records(0);
            recs.sort();
            tail.is_empty() && recs == ordered
        } else {
            // newline records are ambiguous when names contain newlines:
            // compare as byte multisets of the whole stream plus length
            let mut a = stream.clone();
            let mut b = expected_stream.clone();
            a.sort_unstable();
            b.sort_unstable();
            a == b
        };
        if !stream_ok {
            let class = if stream.len() == expected_stream.len() { "C07.print-bytes-differ" } else { "C07.print-bytes-added-or-lost" };
            rep.fail(
                class,
                format!(
                    "argv {:?}: expected output [{}] got [{}]",
                    sc.find.argv,
                    crate::sys::show(&expected_stream[..expected_stream.len().min(400)]),
                    crate::sys::show(&stream[..stream.len().min(400)])
                ),
            );
            return;
        }
        if !sc.nul {
            if rep.want_sample {
                rep.sample = Some(json!({"argv": sc.find.argv, "tree": sc.find.tree, "stream": crate::sys::show(&stream)}));
            }
            return;
        }
        // ---- step 2: the same bytes, re-cut, into xargs -0
        let mut plan = vec![];
        let mut left = stream.len();
        let mut k = 0usize;
        while left > 0 && plan.len() < 100_000 {
            if sc.read_intr_every > 0 && k % sc.read_intr_every == sc.read_intr_every - 1 {
                plan.push(ReadOp::Intr);
            }
            let sz = sc.read_sizes[k % sc.read_sizes.len()];
            let sz = if sz == 0 { usize::MAX } else { sz };
            plan.push(ReadOp::Data(sz));
            left = left.saturating_sub(sz.min(8192));
            k += 1;
        }
        let mut opts = vec![Opt::Null];
        if let Some(n) = sc.xargs_n {
            opts.push(Opt::N(n));
        }
        if sc.xargs_replace {
            opts.push(Opt::ReplI("{}".into()));
            rep.probe("xargs_null_with_replace_mode");
        }
        let xs = XargsScenario {
            opts,
            cmd: vec!["CMD".into(), "--".into(), if sc.xargs_replace { "{}".into() } else { "fixed arg".into() }],
            input: B(stream.clone()),
            read_plan: plan,
            outcomes: sc.outcomes.clone(),
            rlimit_stack: None,
            env: None,
            real: None,
            note: "c07".into(),
            decoy_in_cwd: false,
            echo_mode: false,
            extra: Default::default(),
        };
        let xobs = run_xargs(&xs, ctx);
        rep.executions += 1;
        account_reads(&xobs.log, &stream, None, &[0], rep);
        if let RunStatus::Panic(msg) = &xobs.status {
            rep.fail("C07.panic", format!("xargs panicked: {msg}"));
            return;
        }
        let spawns = xobs.spawn_argvs();
        let mut delivered: Vec<Vec<u8>> = vec![];
        for argv in &spawns {
            if sc.xargs_replace {
                if argv.len() != 3 || argv[0] != b"CMD" || argv[1] != b"--" {
                    rep.fail("C07.command-changed", format!("replace mode: expected CMD -- PATH, got {}", describe_spawns(&[argv.clone()])));
                    return;
                }
                delivered.push(argv[2].clone());
                continue;
            }
            if argv.len() < 3 || argv[0] != b"CMD" || argv[1] != b"--" || argv[2] != b"fixed arg" {
                rep.fail("C07.command-changed", format!("invocation does not start with the command: {}", describe_spawns(&[argv.clone()])));
                return;
            }
            delivered.extend(argv[3..].iter().cloned());
        }
        let (records, _) = obs.records(0);
        if delivered != records {
            let class = if delivered.len() == records.len() { "C07.argument-altered" } else if delivered.concat() == records.concat() { "C07.argument-split-or-merged" } else { "C07.argument-lost-or-duplicated" };
            rep.fail(
                class,
                format!(
                    "find wrote {} paths, the command received {}: first paths {:?} vs received {}",
                    records.len(),
                    delivered.len(),
                    records.iter().take(5).map(|r| crate::sys::show(r)).collect::<Vec<_>>(),
                    describe_spawns(&spawns)
                ),
            );
            return;
        }
        if records.is_empty() && spawns.len() != 1 {
            // find always prints at least the starting point, so this cannot happen on a sane run
            rep.fail("C07.empty-stream", "no record at all".to_string());
            return;
        }
        let any_fail = (0..spawns.len()).any(|k| !matches!(sc.outcomes.get(k), None | Some(Outcome::Exit(0))));
        let want = if any_fail { 123 } else { 0 };
        if xobs.status != RunStatus::Exit(want) {
            rep.fail("C07.xargs-status", format!("expected xargs exit {want}, got {:?}; stderr {}", xobs.status, crate::sys::lossy(&xobs.stderr)));
            return;
        }
        if rep.want_sample {
            rep.sample = Some(json!({
                "find_argv": sc.find.argv, "tree": sc.find.tree, "sink_plan_len": sc.find.sink_plan.len(),
                "stream": crate::sys::show(&stream[..stream.len().min(600)]),
                "read_sizes": sc.read_sizes, "read_intr_every": sc.read_intr_every,
                "invocations": spawns.iter().map(|a| a.iter().map(|x| crate::sys::show(x)).collect::<Vec<_>>()).collect::<Vec<_>>(),
            }));
        }
    }

    fn shrink(sc: &Sc) -> Vec<Sc> {
        let mut out = vec![];
        let mut push = |mut s: Sc| {
            s.render();
            out.push(s);
        };
        if !sc.find.sink_plan.is_empty() {
            let mut s = sc.clone();
            s.find.sink_plan.clear();
            push(s);
        }
        if sc.read_sizes != vec![0] {
            let mut s = sc.clone();
            s.read_sizes = vec![0];
            push(s);
        }
        if sc.read_intr_every != 0 {
            let mut s = sc.clone();
            s.read_intr_every = 0;
            push(s);
        }
        if !sc.outcomes.is_empty() {
            let mut s = sc.clone();
            s.outcomes.clear();
            push(s);
        }
        if sc.xargs_n.is_some() {
            let mut s = sc.clone();
            s.xargs_n = None;
            push(s);
        }
        let root = sc.find.tree.nodes.first().map(|n| n.path().to_string()).unwrap_or_else(|| "t".into());
        if sc.start != root {
            let mut s = sc.clone();
            s.start = root.clone();
            push(s);
        }
        if sc.follow.is_some() {
            let mut s = sc.clone();
            s.follow = None;
            push(s);
        }
        if sc.files0 {
            let mut s = sc.clone();
            s.files0 = false;
            push(s);
        }
        if sc.xargs_replace {
            let mut s = sc.clone();
            s.xargs_replace = false;
            push(s);
        }
        for t in shrink_tree(&sc.find.tree, &[root.clone()]) {
            let mut s = sc.clone();
            s.find.tree = t;
            push(s);
        }
        // simplify names: replace one node's last component by a plain letter
        for i in 0..sc.find.tree.nodes.len() {
            let p = sc.find.tree.nodes[i].path().to_string();
            if let Some((dir, name)) = p.rsplit_once('/') {
                if name.chars().count() > 1 {
                    // drop one character of the name
                    for (ci, _) in name.char_indices() {
                        let mut nn: String = name.to_string();
                        let ch = nn[ci..].chars().next().unwrap();
                        nn.replace_range(ci..ci + ch.len_utf8(), "");
                        if nn.is_empty() || nn == "." || nn == ".." {
                            continue;
                        }
                        let newp = format!("{dir}/{nn}");
                        if sc.find.tree.nodes.iter().any(|n| n.path() == newp) {
                            continue;
                        }
                        let mut s = sc.clone();
                        let pre = format!("{p}/");
                        for n in s.find.tree.nodes.iter_mut() {
                            let q = n.path().to_string();
                            if q == p {
                                n.set_path(newp.clone());
                            } else if let Some(rest) = q.strip_prefix(&pre) {
                                n.set_path(format!("{newp}/{rest}"));
                            }
                        }
                        push(s);
                    }
                }
            }
        }
        out
    }

    fn crosscheck(sc: &Sc, ctx: &mut Ctx, bins: &std::path::Path) -> crate::crosscheck::Xc {
        use crate::crosscheck::Xc;
        if !sc.nul || sc.files0 || sc.xargs_replace || sc.find.tree.nodes.iter().any(|n| n.path().len() > 4000) {
            return Xc::NotComparable;
        }
        // in-process find gives the stream; the real pipeline must deliver exactly its records
        let root = ctx.scratch.join("A");
        let _ = std::env::set_current_dir(&ctx.scratch);
        crate::sys::wipe(&root);
        if std::fs::create_dir_all(&root).is_err() || tree::build(&root, &sc.find.tree).is_err() {
            return Xc::Disagree("cannot build tree".into());
        }
        let fobs = run_find_prebuilt(&sc.find, ctx, root);
        let mut want: Vec<Vec<u8>> = fobs.log.sink.split(|b| *b == 0).map(|r| r.to_vec()).collect();
        want.pop(); // after the final NUL
        let mut xopts = vec!["-0".to_string()];
        if let Some(n) = sc.xargs_n {
            xopts.push("-n".into());
            xopts.push(n.to_string());
        }
        match crate::crosscheck::pipeline_real(&sc.find, &xopts, &sc.outcomes, ctx, bins) {
            Err(e) => Xc::Disagree(e),
            Ok((got, fstatus, _)) => {
                if fstatus != fobs.status {
                    Xc::Differs(format!("find {:?}: status {:?} in-process, {:?} by the executable", sc.find.argv, fobs.status, fstatus))
                } else if got != want {
                    let at = got.iter().zip(&want).position(|(a, b)| a != b).unwrap_or(got.len().min(want.len()));
                    Xc::Differs(format!(
                        "find {:?} | xargs {:?}: {} paths printed in-process, {} arguments received through the real pipe; first difference at #{at}: [{}] vs [{}]",
                        sc.find.argv, xopts, want.len(), got.len(),
                        want.get(at).map(|a| crate::sys::show(a)).unwrap_or_default(), got.get(at).map(|a| crate::sys::show(a)).unwrap_or_default()
                    ))
                } else {
                    Xc::Agree
                }
            }
        }
    }

    fn crosscheck_extras() -> Vec<Sc> {
        // 20 000 records (some 250 KB) through the real pipe
        let mut spec = crate::tree::TreeSpec::default();
        spec.nodes.push(crate::tree::Node::Dir { path: "t".into() });
        spec.nodes.push(crate::tree::Node::Dir { path: "t/a b".into() });
        spec.bulk.push(crate::tree::Bulk { dir: "t/a b".into(), count: 20_000, kind: crate::tree::BulkKind::File });
        let mut sc = Sc {
            find: FindScenario::new(spec, vec![]),
            start: "t".into(),
            sorted: true,
            nul: true,
            read_sizes: vec![0],
            read_intr_every: 0,
            outcomes: vec![],
            xargs_n: Some(1000),
            follow: None,
            files0: false,
            xargs_replace: false,
        };
        sc.render();
        vec![sc]
    }

    fn rule() -> &'static str {
        "one evaluation = one seeded scenario: a real tree whose names are arbitrary valid UTF-8 without '/' and NUL (blanks only, leading '-', newlines, quotes, backslashes, {}, $(), glob characters, multi-byte, up to 250 bytes), a starting point spelled t / ./t / t/, find_main ... -print0 (or -print) writing through a sink that accepts short counts and raises EINTR, then the accepted byte stream fed to xargs_main -0 CMD through a reader that re-cuts it independently (1-byte, odd sizes, whole buffers, EINTR every k-th read), optional -n and failing children; oracle: the stream equals the concatenation over an independent reference walk, and the arguments received over all invocations equal the record list exactly once, in order; a quarter of the runs use -H/-L/-follow, the starting point may have a hostile name or come from -files0-from, and a fifth of the runs use xargs -0 -I{}; the process environment is a dimension too (variables nobody should listen to such as POSIXLY_CORRECT, TZ with daylight saving, LC_ALL, in a sixth of the runs; descriptor 1 a terminal in a tenth); a slice of the scenarios goes through the real find | xargs pipeline; distinct = distinct abstract trace; non-trivial = a write/read fault fired or a hostile-name probe hit"
    }

    fn components() -> Value {
        json!({
            "real": ["find_main: walk, Printer::print (write!/flush)", "xargs_main: ByteDelimitedArgumentReader over std BufReader, limiter chain, CommandBuilder argv construction"],
            "stub": ["the pipe: SimSink on the writer side, SimStream on the reader side", "fork/exec of CMD"]
        })
    }

    fn assumptions() -> Vec<&'static str> {
        vec![
            "a pipe is FIFO and lossless and both programs are sequential, so the only thing a real concurrent `find | xargs` can vary is where the stream is cut; the two runs are therefore composed sequentially with every cut under seed control",
            "file names are valid UTF-8, as the statement stipulates",
            "without -sorted only the multiset of records is compared (directory order is the file system's)",
        ]
    }
}
