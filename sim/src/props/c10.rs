//! C10 — find -delete removes exactly the matched entries and nothing else.

use std::fs;

use serde::{Deserialize, Serialize};
use serde_json::{json, Value};

use crate::ctx::{Ctx, RunStatus};
use crate::fgen::*;
use crate::find::{account_find, run_find_prebuilt, FindScenario, MutOp, Mutation, When};
use crate::prop::{Property, Report, Tier};
use crate::rng::Rng;
use crate::tree::{self, FollowMode, Node, RefWalk, WalkCfg};

#[derive(Clone, Debug, Serialize, Deserialize)]
pub struct Sc {
    pub find: FindScenario,
    pub follow_flag: Option<String>,
    pub starts: Vec<String>,
    pub sorted: bool,
    pub mindepth: Option<usize>,
    pub maxdepth: Option<usize>,
    pub tests: Vec<String>,
    /// `-delete` is followed by `-o -quit`: the first removal that fails ends the walk
    #[serde(default)]
    pub quit_on_failure: bool,
    /// the follow mode comes from `-follow` written at the very end of the expression, after
    /// the action (a global option: it applies to the whole walk and to what -delete removes)
    #[serde(default)]
    pub follow_at_end: bool,
}

const DMARK: &[u8] = b"\x01D\n";

impl Sc {
    fn follow(&self) -> FollowMode {
        if self.follow_at_end {
            return FollowMode::L;
        }
        match self.follow_flag.as_deref() {
            Some("-H") => FollowMode::H,
            Some("-L") => FollowMode::L,
            _ => FollowMode::P,
        }
    }

    fn common(&self) -> Vec<String> {
        let mut a = vec![];
        if let Some(f) = &self.follow_flag {
            a.push(f.clone());
        }
        a.extend(self.starts.iter().cloned());
        if let Some(m) = self.mindepth {
            a.push("-mindepth".into());
            a.push(m.to_string());
        }
        if let Some(m) = self.maxdepth {
            a.push("-maxdepth".into());
            a.push(m.to_string());
        }
        if self.sorted {
            a.push("-sorted".into());
        }
        a
    }

    /// pass 1: the statement's own definition of the expected set and order
    fn argv_print(&self) -> Vec<String> {
        let mut a = self.common();
        a.push("-depth".into());
        a.extend(self.tests.iter().cloned());
        a.push("-print0".into());
        if self.follow_at_end {
            a.push("-follow".into());
        }
        a
    }

    /// pass 2: the deletion, with a marker before and a truth marker after
    fn argv_delete(&self) -> Vec<String> {
        let mut a = self.common();
        a.extend(self.tests.iter().cloned());
        a.push("-print0".into());
        if self.quit_on_failure {
            a.push("(".into());
        }
        a.push("-delete".into());
        a.push("-printf".into());
        a.push("\\001D\\n".into());
        if self.quit_on_failure {
            a.extend(["-o", "-quit", ")"].iter().map(|s| s.to_string()));
        }
        if self.follow_at_end {
            a.push("-follow".into());
        }
        a
    }
}

pub struct C10;

/// The path a printed (lossy) relative path has on disk.
fn real_path(root: &std::path::Path, raw: Option<u8>, rel: &str) -> std::path::PathBuf {
    use std::os::unix::ffi::OsStringExt;
    root.join(std::ffi::OsString::from_vec(tree::unlossy(raw, rel.as_bytes())))
}

/// The statement's rule, applied with plain system calls.
fn ref_delete(root: &std::path::Path, raw: Option<u8>, rel: &str) -> bool {
    let p = real_path(root, raw, rel);
    match fs::symlink_metadata(&p) {
        Ok(m) if m.is_dir() => fs::remove_dir(&p).is_ok(),
        Ok(_) => fs::remove_file(&p).is_ok(),
        Err(_) => false,
    }
}

impl Property for C10 {
    const ID: &'static str = "C10";
    type Sc = Sc;

    fn wants_unprivileged() -> bool {
        true
    }

    fn generate(rng: &mut Rng, _tier: Tier) -> Sc {
        if rng.chance(1, 80) {
            // exactly 255, 256, 257 or 512 removals fail under one starting point (matched
            // directories that are not empty) and nothing else does: status non-zero
            let mut spec = tree::TreeSpec::default();
            for p in ["t", "t/many", "u", "out", "out/od"] {
                spec.nodes.push(Node::Dir { path: p.into() });
            }
            spec.nodes.push(Node::File { path: "u/g".into(), size: 1, token: 2, atime_ns: None, mtime_ns: None });
            spec.bulk.push(tree::Bulk { dir: "t/many".into(), count: *rng.pick(&[255usize, 256, 256, 257, 512]), kind: tree::BulkKind::DirWithFile });
            let find = FindScenario::new(spec, vec![]);
            return Sc {
                find,
                follow_flag: None,
                starts: if rng.chance(1, 2) { vec!["t".into()] } else { vec!["t".into(), "u".into()] },
                sorted: rng.chance(1, 2),
                mindepth: None,
                maxdepth: None,
                tests: vec!["-type".into(), "d".into(), "-name".into(), "b*".into()],
                quit_on_failure: false,
                follow_at_end: false,
            };
        }
        let follow_flag = match rng.weighted(&[45, 10, 20, 25]) {
            0 => None,
            1 => Some("-P".to_string()),
            2 => Some("-H".to_string()),
            _ => Some("-L".to_string()),
        };
        let follows_inside = follow_flag.as_deref() == Some("-L");
        // the same follow mode, now and then spelled `-follow` after the action
        let follow_at_end = follows_inside && rng.chance(1, 4);
        let follow_flag = if follow_at_end { None } else { follow_flag };
        // names that are not valid UTF-8 (then no racing mutator: its paths are strings)
        let raw_byte = if rng.chance(1, 5) { Some(*rng.pick(&[0xffu8, 0xe9, 0xc3, 0x80])) } else { None };
        let nroots = rng.small(1, 3);
        let roots: Vec<String> = ["t", "u", "v"][..nroots].iter().map(|s| s.to_string()).collect();
        let cfg = TreeCfg {
            roots: roots.clone(),
            max_entries: *rng.pick(&[0, 3, 8, 14, 24]),
            max_depth: rng.urange(1, 5),
            names: NameStyle::Simple,
            link_weight: *rng.pick(&[0, 10, 25]),
            allow_loops: false,
            outside: true,
            fifo: rng.chance(1, 10),
            raw_byte,
        };
        let mut spec = gen_tree(rng, &cfg);
        if follows_inside {
            // under -L a link to a directory *inside* the starting points makes
            // the walk delete entries it would later visit by another path;
            // the statement's "identical tree" oracle does not apply there.
            // Redirect such links to the outside area.
            let dirs = dirs_of(&spec);
            let links: Vec<String> = spec
                .nodes
                .iter()
                .filter_map(|n| if let Node::Symlink { path, .. } = n { Some(path.clone()) } else { None })
                .collect();
            for n in spec.nodes.iter_mut() {
                if let Node::Symlink { path, target } = n {
                    let parent = path.rsplit_once('/').map(|x| x.0).unwrap_or("");
                    let resolved = crate::props::c09::norm_dir(&format!("{parent}/{target}"));
                    let inside_dir = dirs.iter().any(|d| *d == resolved && !d.starts_with("out"));
                    let chain = links.contains(&resolved);
                    if inside_dir || chain {
                        *target = relative_target(parent, "out/od");
                    }
                }
            }
        }
        let mut starts: Vec<String> = roots.clone();
        if rng.chance(1, 4) {
            // a starting point that is a link to a directory outside
            spec.nodes.push(Node::Symlink {
                path: "lnk".into(),
                target: "out/od".into(),
            });
            starts.push("lnk".into());
        }
        for s in starts.iter_mut() {
            if rng.chance(1, 6) {
                *s = format!("./{s}");
            }
        }
        // a starting point spelled DIR/.. : it resolves to DIR's parent, is matched like any
        // other entry and cannot be removed under that name (a diagnostic, false, non-zero)
        let mut dotdot_through: Option<String> = None;
        // (not under -L: there the tests look at the entry again through its path when its turn
        // comes, and this path runs through DIR, which the walk has removed by then: the tree
        // is no longer the one `-depth EXPR -print` saw, which is all the statement speaks of)
        // (nor under -H, which treats the starting points themselves the same way)
        if rng.chance(1, 12) && !follows_inside && follow_flag.as_deref() != Some("-H") {
            // (in place of the plain spelling of the same directory: the same entries must not
            // be reached through two starting points)
            let k = rng.usize_below(roots.len());
            let inner: Vec<String> = dirs_of(&spec)
                .into_iter()
                .filter(|d| d.matches('/').count() == 1 && d.starts_with(&format!("{}/", roots[k])) && !d.contains(crate::tree::RAW_SENTINEL))
                .collect();
            if !inner.is_empty() {
                let d = rng.pick(&inner).clone();
                starts[k] = format!("{d}/..");
                dotdot_through = d.rsplit('/').next().map(|s| s.to_string());
            }
        }
        // find runs with the first starting point as its working directory, reached as ../t
        let cwd_in_tree = rng.chance(1, 12);
        if cwd_in_tree {
            for s in starts.iter_mut() {
                *s = format!("../{}", s.trim_start_matches("./"));
            }
        }
        let mut tests = gen_stable_tests(rng);
        if let Some(name) = &dotdot_through {
            // DIR itself stays (every path of this starting point runs through it)
            let mut t = vec!["!".to_string(), "-name".to_string(), name.clone()];
            t.extend(tests);
            tests = t;
        }
        if rng.chance(1, 8) && !starts.iter().any(|s| s.ends_with("/..")) {
            // (a test that reads the entry's metadata through its path: same remark as above)
            tests.extend(["-perm".to_string(), "-u+r".to_string()]);
        }
        // failing removals
        let mut mutations = vec![];
        match rng.weighted(&[50, 25, if raw_byte.is_some() { 0 } else { 25 }]) {
            1 => {
                // EACCES: the parent does not allow removal
                let dirs: Vec<String> = dirs_of(&spec).into_iter().filter(|d| !d.starts_with("out")).collect();
                if !dirs.is_empty() {
                    let d = rng.pick(&dirs).clone();
                    spec.chmods.push((d, 0o555));
                }
            }
            2 => {
                // a racing process: the entry vanishes, or a matched directory is refilled
                let dirs: Vec<String> = dirs_of(&spec);
                for _ in 0..rng.small(1, 2) {
                    let j = rng.usize_below(10);
                    if rng.chance(1, 2) && !dirs.is_empty() {
                        // a file dropped into the directory that is about to be
                        // removed (its contents have been walked by then)
                        mutations.push(Mutation {
                            at: When::AfterRecord(j),
                            op: MutOp::Create,
                            path: "@CURRENT/zz-new".into(),
                        });
                    } else {
                        mutations.push(Mutation {
                            at: When::AfterRecord(j),
                            op: MutOp::Unlink,
                            path: "@CURRENT".into(),
                        });
                    }
                }
            }
            _ => {}
        }
        let mut find = FindScenario::new(spec, vec![]);
        find.gen_extras(rng, true);
        find.starts_via_file = rng.chance(1, 10) && !cwd_in_tree;
        if cwd_in_tree {
            find.cwd_sub = Some("t".into());
        }
        find.mutations = mutations;
        find.record_delim = 0;
        Sc {
            find,
            follow_flag,
            starts,
            sorted: rng.chance(4, 5),
            mindepth: if rng.chance(1, 4) { Some(rng.urange(0, 3)) } else { None },
            maxdepth: if rng.chance(1, 5) { Some(rng.urange(0, 4)) } else { None },
            tests,
            quit_on_failure: rng.chance(1, 6),
            follow_at_end,
        }
    }

    fn budget(tier: Tier) -> u64 {
        match tier {
            Tier::Quick => 100_000,
            Tier::Thorough => 2_000_000,
        }
    }

    fn check(sc: &Sc, ctx: &mut Ctx, rep: &mut Report) {
        let mut spec = sc.find.tree.clone();
        if !ctx.unprivileged && !spec.chmods.is_empty() {
            spec.chmods.clear();
            rep.probe("permission_faults_disabled_running_as_root");
        }
        let a = ctx.scratch.join("A");
        let b = ctx.scratch.join("B");
        let _ = std::env::set_current_dir(&ctx.scratch);
        for r in [&a, &b] {
            crate::sys::wipe(r);
            fs::create_dir_all(r).expect("scratch root");
            if let Err(e) = tree::build(r, &spec) {
                rep.fail("C10.HARNESS-tree-build", format!("cannot build tree: {e}"));
                return;
            }
        }
        // what relative paths on the command line (and in the output) are relative to
        let (a_top, b_top) = (a.clone(), b.clone());
        let (a, b) = match &sc.find.cwd_sub {
            Some(sub) => {
                rep.probe("working_directory_inside_the_tree_it_deletes");
                (a.join(sub), b.join(sub))
            }
            None => (a, b),
        };
        if sc.starts.iter().any(|s| s.ends_with("/..")) {
            rep.probe("starting_point_spelled_dir_dotdot");
        }
        let describe = |argv: &Vec<String>| format!("argv {:?} cwd {:?} chmods {:?} mutations {:?}", argv, sc.find.cwd_sub, spec.chmods, sc.find.mutations);
        // independent post-order, to compare with pass 1's order
        let wcfg = WalkCfg {
            follow: sc.follow(),
            mindepth: sc.mindepth.unwrap_or(0),
            maxdepth: sc.maxdepth.unwrap_or(usize::MAX),
            depth_first: true,
            sorted: true,
        };
        let mut rw = RefWalk::default();
        for s in &sc.starts {
            tree::ref_walk(&a, s, &wcfg, &mut rw);
        }
        // ---- pass 1 (read-only) on A
        let mut p1 = FindScenario::new(Default::default(), sc.argv_print());
        p1.extras_pre = sc.find.extras_pre.clone();
        p1.extras_global = sc.find.extras_global.clone();
        p1.starts_via_file = sc.find.starts_via_file;
        p1.cwd_sub = sc.find.cwd_sub.clone();
        p1.record_delim = 0;
        let o1 = run_find_prebuilt(&p1, ctx, a_top.clone());
        rep.executions += 1;
        if let RunStatus::Panic(msg) = &o1.status {
            rep.fail("C10.panic", format!("{}: find panicked: {msg}", describe(&p1.argv)));
            return;
        }
        let (recs1, _) = o1.records(0);
        let pass1: Vec<String> = recs1.iter().map(|r| String::from_utf8_lossy(r).into_owned()).collect();
        if sc.sorted && rw.loops == 0 && rw.unreadable_dirs == 0 {
            // pass 1 must be a subsequence of the reference post-order
            let mut it = rw.must.iter().map(|(p, _)| p.as_str());
            let mut ok = true;
            let mut bad = String::new();
            for p in &pass1 {
                if !it.any(|q| q == p) {
                    ok = false;
                    bad = p.clone();
                    break;
                }
            }
            if !ok {
                let h_bug = sc.follow() == FollowMode::H
                    && sc.starts.iter().any(|s| {
                        fs::symlink_metadata(a.join(s)).map(|m| m.file_type().is_symlink()).unwrap_or(false)
                            && fs::metadata(a.join(s)).map(|m| m.is_dir()).unwrap_or(false)
                            && (bad == *s || bad.starts_with(&format!("{}/", s.trim_end_matches('/'))))
                    });
                rep.fail(
                    if h_bug { "C10.order.H-symlink-root" } else { "C10.depth-first-order" },
                    format!(
                        "{}: -depth reported [{}] out of depth-first order; reported {:?}, reference post-order {:?}",
                        describe(&p1.argv),
                        bad,
                        &pass1[..pass1.len().min(12)],
                        rw.must.iter().map(|x| x.0.clone()).take(12).collect::<Vec<_>>()
                    ),
                );
                return;
            }
        }
        // The recorded walkdir defect (see known_findings.txt): under -H a
        // starting point that is a link to a directory is reported before
        // the entries beneath it.
        if sc.follow() == FollowMode::H {
            for s0 in &sc.starts {
                let is_link_to_dir = fs::symlink_metadata(a.join(s0)).map(|m| m.file_type().is_symlink()).unwrap_or(false)
                    && fs::metadata(a.join(s0)).map(|m| m.is_dir()).unwrap_or(false);
                if !is_link_to_dir {
                    continue;
                }
                let pre = format!("{}/", s0.trim_end_matches('/'));
                let root_at = pass1.iter().position(|p| p == s0);
                let last_child = pass1.iter().rposition(|p| p.starts_with(&pre));
                if let (Some(r), Some(c)) = (root_at, last_child) {
                    if r < c {
                        rep.fail(
                            "C10.order.H-symlink-root",
                            format!("{}: -depth reported the starting point [{}] before entries beneath it: {:?}", describe(&p1.argv), s0, &pass1[..pass1.len().min(12)]),
                        );
                        return;
                    }
                }
            }
        }
        // A deletion that interferes with its own walk: the same file reported
        // through two paths, or a followed link whose target is (or contains)
        // something reported by another path. The statement's "identical tree"
        // oracle does not apply to such scenarios.
        if sc.follow() != FollowMode::P {
            let id_of = |p: &str| -> std::path::PathBuf {
                let full = real_path(&a, spec.raw_byte, p.trim_end_matches('/'));
                match (full.parent().and_then(|d| fs::canonicalize(d).ok()), full.file_name()) {
                    (Some(d), Some(n)) => d.join(n),
                    _ => full.clone(),
                }
            };
            let ids: Vec<std::path::PathBuf> = pass1.iter().map(|p| id_of(p)).collect();
            let mut seen = std::collections::BTreeSet::new();
            let mut interfering = ids.iter().any(|i| !seen.insert(i.clone()));
            let followed: Vec<String> = if sc.follow() == FollowMode::L {
                spec.nodes.iter().filter_map(|n| if let Node::Symlink { path, .. } = n { Some(path.clone()) } else { None }).collect()
            } else {
                // (as specified paths, i.e. relative to the directory the tree stands in)
                sc.starts.iter().map(|s| s.trim_start_matches("../").trim_start_matches("./").to_string()).collect()
            };
            for l in &followed {
                if interfering {
                    break;
                }
                // `l` is a specified path: its bytes on disk, and the way find prints it
                let disk = tree::disk_bytes(spec.raw_byte, l);
                let lp = {
                    use std::os::unix::ffi::OsStringExt;
                    a_top.join(std::ffi::OsString::from_vec(disk.clone()))
                };
                let shown = String::from_utf8_lossy(&disk).into_owned();
                let Ok(t) = fs::canonicalize(&lp) else { continue };
                if !fs::symlink_metadata(&lp).map(|m| m.file_type().is_symlink()).unwrap_or(false) {
                    continue;
                }
                let l_shown: Vec<String> = vec![shown.clone(), format!("./{shown}"), format!("../{shown}")];
                for (p, id) in pass1.iter().zip(&ids) {
                    let through_l = l_shown.iter().any(|ls| p == ls || p.starts_with(&format!("{ls}/")));
                    if !through_l && (id == &t || id.starts_with(&t)) {
                        interfering = true;
                        break;
                    }
                }
            }
            if interfering {
                rep.probe("self_interfering_walk_not_judged");
                return;
            }
        }
        // ---- pass 2 (the deletion) on A
        let mut p2 = sc.find.clone();
        p2.tree = Default::default();
        p2.argv = sc.argv_delete();
        // "@CURRENT" = the entry whose marker was just written
        for m in p2.mutations.iter_mut() {
            if m.path.starts_with("@CURRENT") {
                if let When::AfterRecord(j) = m.at {
                    let cur = pass1.get(j).cloned().unwrap_or_else(|| "no-such-entry".into());
                    // only a real directory can be refilled (a link to a
                    // directory would redirect the new file elsewhere)
                    let real_dir = fs::symlink_metadata(a.join(&cur)).map(|x| x.is_dir()).unwrap_or(false);
                    if m.op == MutOp::Create && !real_dir {
                        m.path = "no-such-dir/zz-new".into();
                    } else {
                        m.path = m.path.replacen("@CURRENT", &cur, 1);
                    }
                }
            }
        }
        let o2 = run_find_prebuilt(&p2, ctx, a_top.clone());
        rep.executions += 1;
        account_find(&o2, rep);
        if let RunStatus::Panic(msg) = &o2.status {
            rep.fail("C10.panic", format!("{}: find panicked: {msg}", describe(&p2.argv)));
            return;
        }
        if o2.log.budget_exhausted {
            rep.fail("C10.no-progress", format!("{}: step budget exhausted", describe(&p2.argv)));
            return;
        }
        // parse pass 2's stream: path NUL [ \x01 D \n ]
        let mut pass2: Vec<(String, bool)> = vec![];
        {
            let s = &o2.log.sink;
            let mut i = 0;
            while i < s.len() {
                if s[i..].starts_with(DMARK) {
                    if let Some(last) = pass2.last_mut() {
                        last.1 = true;
                    }
                    i += DMARK.len();
                    continue;
                }
                let end = s[i..].iter().position(|b| *b == 0).map(|k| i + k).unwrap_or(s.len());
                pass2.push((String::from_utf8_lossy(&s[i..end]).into_owned(), false));
                i = end + 1;
            }
        }
        // ---- the reference executor on B
        // (from the same working directory, with the same relative names: a working directory
        // that has been removed still resolves `..`, an absolute path through it does not)
        let mut ref_ok: Vec<bool> = vec![];
        let _ = std::env::set_current_dir(&b);
        let here = std::path::PathBuf::from(".");
        for (j, p) in pass1.iter().enumerate() {
            for m in &p2.mutations {
                if m.at == When::AfterRecord(j) {
                    let _ = match m.op {
                        MutOp::Create => fs::write(here.join(&m.path), b"").is_ok(),
                        MutOp::Unlink => fs::remove_file(here.join(&m.path)).is_ok(),
                        _ => false,
                    };
                }
            }
            ref_ok.push(ref_delete(&here, spec.raw_byte, p));
            if sc.quit_on_failure && !*ref_ok.last().unwrap() {
                break;
            }
        }
        let _ = std::env::set_current_dir(&ctx.scratch);
        for ok in &ref_ok {
            rep.trace.byte(if *ok { 21 } else { 22 });
        }
        rep.trace.u64(crate::rng::bucket(pass1.len()));
        let failures = ref_ok.iter().filter(|x| !**x).count();
        if failures > 0 {
            rep.fault_n("removal_failed", failures as u64);
        }
        if failures >= 255 {
            rep.probe("hundreds_of_failing_removals");
        }
        if pass1.iter().zip(&ref_ok).any(|(p, ok)| !*ok && fs::symlink_metadata(b.join(p)).map(|m| m.is_dir()).unwrap_or(false)) {
            rep.probe("matched_directory_not_empty_or_not_removable");
        }
        if sc.follow() != FollowMode::P {
            rep.probe("follow_mode_H_or_L");
        }
        if spec.nodes.iter().any(|n| matches!(n, Node::Symlink { target, .. } if target.contains("out"))) {
            rep.probe("links_pointing_outside_the_starting_points");
        }
        // (a) same entries, same order as -depth EXPR -print
        let names2: Vec<&String> = pass2.iter().map(|x| &x.0).collect();
        // with `-o -quit` the walk ends at the first removal that fails
        let names1: Vec<&String> = pass1.iter().take(ref_ok.len()).collect();
        if sc.quit_on_failure {
            rep.probe("quit_after_failed_removal_in_expression");
            if failures > 0 {
                rep.probe("walk_ended_by_quit_after_a_failed_removal");
            }
        }
        if spec.raw_byte.is_some() && pass1.iter().any(|p| p.contains('\u{fffd}')) {
            rep.probe("file_name_not_valid_utf8");
        }
        if names2 != names1 {
            let first = names1.iter().zip(&names2).position(|(x, y)| x != y).unwrap_or(names1.len().min(names2.len()));
            let class = if names2.len() < names1.len() && names1.starts_with(&names2) {
                "C10.walk-stopped-early"
            } else {
                "C10.not-the-set-and-order-of-depth-print"
            };
            rep.fail(
                class,
                format!(
                    "{}: -depth EXPR -print reports {} entries, -delete acted on {}; first difference at #{first}: {:?} vs {:?}; stderr {}",
                    describe(&p2.argv),
                    names1.len(),
                    names2.len(),
                    names1.get(first),
                    names2.get(first),
                    crate::sys::lossy(&o2.stderr[..o2.stderr.len().min(300)])
                ),
            );
            return;
        }
        // (b) -delete is true exactly where the removal succeeded
        for (j, ((p, d), ok)) in pass2.iter().zip(&ref_ok).enumerate() {
            if *d != *ok {
                rep.fail(
                    if *d { "C10.true-although-removal-failed" } else { "C10.false-although-removable" },
                    format!("{}: entry #{j} [{}]: reference removal {} but -delete was {}; stderr {}", describe(&p2.argv), p, if *ok { "succeeded" } else { "failed" }, d, crate::sys::lossy(&o2.stderr[..o2.stderr.len().min(300)])),
                );
                return;
            }
        }
        // (c) the two sandboxes are identical afterwards: nothing else changed
        let sa = tree::snapshot(&a_top);
        let sb = tree::snapshot(&b_top);
        if sa != sb {
            let mut diff = vec![];
            for (k, v) in &sa {
                match sb.get(k) {
                    None => diff.push(format!("[{k}] exists after find ({v}) but the rule removes it")),
                    Some(w) if w != v => diff.push(format!("[{k}]: find left {v}, the rule leaves {w}")),
                    _ => {}
                }
            }
            for (k, v) in &sb {
                if !sa.contains_key(k) {
                    diff.push(format!("[{k}] ({v}) was removed by find but must survive"));
                }
            }
            let outside = diff.iter().any(|d| d.starts_with("[out"));
            rep.fail(
                if outside { "C10.changed-something-outside" } else { "C10.sandbox-differs" },
                format!("{}: {}", describe(&p2.argv), diff[..diff.len().min(6)].join("; ")),
            );
            return;
        }
        // (d) exit status and one diagnostic per failure
        let nonzero = o2.status != RunStatus::Exit(0);
        let walk_diag = rw.diag_owed || rw.diag_allowed;
        if failures > 0 && !nonzero {
            rep.fail("C10.failure-not-reflected-in-exit-status", format!("{}: {failures} removal(s) failed but find exited 0", describe(&p2.argv)));
            return;
        }
        if failures == 0 && nonzero && !walk_diag {
            rep.fail(
                "C10.spurious-failure-status",
                format!("{}: every removal succeeded but find exited {:?}; stderr {}", describe(&p2.argv), o2.status, crate::sys::lossy(&o2.stderr[..o2.stderr.len().min(300)])),
            );
            return;
        }
        // a diagnostic for every failure (whatever its wording): at least as many lines on
        // stderr as removals failed
        let diag_lines = o2.stderr.split(|b| *b == b'\n').filter(|l| !l.is_empty()).count();
        if diag_lines < failures {
            rep.fail(
                "C10.failure-without-diagnostic",
                format!("{}: {failures} removal(s) failed, {diag_lines} line(s) of diagnostics: {}", describe(&p2.argv), crate::sys::lossy(&o2.stderr[..o2.stderr.len().min(300)])),
            );
            return;
        }
        if rep.want_sample {
            rep.sample = Some(json!({
                "print_argv": p1.argv, "delete_argv": p2.argv, "tree": spec, "mutations": p2.mutations,
                "depth_print_order": pass1,
                "delete_pass": pass2.iter().map(|(p, d)| json!([p, d])).collect::<Vec<_>>(),
                "reference_removals": ref_ok,
                "status": o2.status, "stderr": crate::sys::lossy(&o2.stderr),
                "survivors": sa.keys().collect::<Vec<_>>(),
            }));
        }
    }

    fn shrink(sc: &Sc) -> Vec<Sc> {
        let mut out = vec![];
        if sc.starts.len() > 1 {
            for i in 0..sc.starts.len() {
                let mut s = sc.clone();
                s.starts.remove(i);
                out.push(s);
            }
        }
        for i in 0..sc.find.mutations.len() {
            let mut s = sc.clone();
            s.find.mutations.remove(i);
            out.push(s);
        }
        if !sc.tests.is_empty() {
            let mut s = sc.clone();
            s.tests.clear();
            out.push(s);
        }
        if sc.mindepth.is_some() {
            let mut s = sc.clone();
            s.mindepth = None;
            out.push(s);
        }
        if sc.maxdepth.is_some() {
            let mut s = sc.clone();
            s.maxdepth = None;
            out.push(s);
        }
        if sc.quit_on_failure {
            let mut s = sc.clone();
            s.quit_on_failure = false;
            out.push(s);
        }
        if sc.follow_flag.is_some() {
            let mut s = sc.clone();
            s.follow_flag = None;
            out.push(s);
        }
        let protect: Vec<String> = sc
            .starts
            .iter()
            .map(|s| s.trim_start_matches("./").to_string())
            .chain(["out".to_string(), "out/od".to_string()])
            .chain(sc.find.mutations.iter().map(|m| m.path.rsplit_once('/').map(|x| x.0.to_string()).unwrap_or_default()))
            .collect();
        for t in shrink_tree(&sc.find.tree, &protect) {
            let mut s = sc.clone();
            s.find.tree = t;
            out.push(s);
        }
        out
    }

    fn rule() -> &'static str {
        "one evaluation = one seeded scenario executed on twin sandboxes A and B (identical trees incl. an 'outside' area and links to files and directories inside and outside the starting points, dangling links, fifos): pass 1 `find ROOTS -depth EXPR -print0` on A defines the expected set and order (and is itself compared with an independent reference post-order), pass 2 `find ROOTS EXPR -print0 -delete -printf MARK` runs on A, and a reference executor applies the statement's rule (lstat: real directory -> rmdir, anything else -> unlink) to B path by path; EXPR only uses tests that deletions cannot change (-name/-iname/-path/-type/-perm/-true/-false, depth bounds, ! -a -o ( )); faults: ENOTEMPTY (matched directory with unmatched children), EACCES (parent 0555 under a dropped uid), ENOENT and ENOTEMPTY produced by a scripted racing process acting between the marker and the action; oracle: same entries in the same order, -delete true exactly where the reference removal succeeded, full snapshots of A and B equal (inside and outside the starting points), exit status non-zero iff a removal failed with one diagnostic each; also ( -delete ... -o -quit ) and names that are not valid UTF-8; diagnostics are counted, not matched; in 1/12 of the runs find's working directory is the first starting point itself, reached as ../t (the reference removals then run from the same directory with the same relative names), in 1/12 (under -P) a starting point is spelled DIR/..; the process environment is a dimension too (variables nobody should listen to such as POSIXLY_CORRECT, TZ with daylight saving, LC_ALL, in a sixth of the runs; descriptor 1 a terminal in a tenth); distinct = distinct abstract trace; non-trivial = a failing removal or mutation fired, or a shape probe hit"
    }

    fn components() -> Value {
        json!({
            "real": ["build_matcher_tree (-delete implies depth-first)", "DeleteMatcher", "WalkEntry::file_type / path_is_symlink", "process_dir / walkdir contents_first", "the kernel's unlink/rmdir with real permissions under uid 65534"],
            "stub": ["stdout (SimSink)", "the racing process (scripted mutator between marker and action)"]
        })
    }

    fn assumptions() -> Vec<&'static str> {
        vec![
            "tests whose value the deletions themselves change (-empty, -newer, -size, -links) are not generated: for them a correct find legitimately differs from `-depth EXPR -print` on an identical tree",
            "under -L, links to directories inside the starting points are redirected outside (otherwise the walk deletes entries it would later reach by another path, and the statement's own oracle no longer applies)",
            "the racing process only removes the entry being acted on or drops a file into a directory: neither changes which later entries the walk visits",
        ]
    }
}
