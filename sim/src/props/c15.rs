//! C15 — find time tests under an injected clock.

use std::os::unix::fs::MetadataExt;

use serde::{Deserialize, Serialize};
use serde_json::{json, Value};

use crate::ctx::{Ctx, RunStatus};
use crate::find::{account_find, run_find_prebuilt, FindScenario};
use crate::prop::{Property, Report, Tier};
use crate::rng::Rng;
use crate::tree::{self, Node, TreeSpec};

#[derive(Clone, Debug, PartialEq, Eq, Serialize, Deserialize)]
pub enum Test {
    /// -Xtime / -Xmin: which ('a','c','m'), minutes?, comparison ('=','+','-'), N
    Age { which: char, minutes: bool, cmp: char, n: u64 },
    /// -newer F
    Newer,
    /// -anewer F / -cnewer F
    ShortNewer { x: char },
    /// -newerXY F
    NewerXY { x: char, y: char },
}

impl Test {
    fn args(&self) -> Vec<String> {
        match self {
            Test::Age { which, minutes, cmp, n } => {
                let name = format!("-{}{}", which, if *minutes { "min" } else { "time" });
                let v = match cmp {
                    '+' => format!("+{n}"),
                    '-' => format!("-{n}"),
                    _ => format!("{n}"),
                };
                vec![name, v]
            }
            Test::Newer => vec!["-newer".into(), "ref".into()],
            Test::ShortNewer { x } => vec![format!("-{x}newer"), "ref".into()],
            Test::NewerXY { x, y } => vec![format!("-newer{x}{y}"), "ref".into()],
        }
    }
}

#[derive(Clone, Debug, Serialize, Deserialize)]
pub struct Sc {
    /// files d/f0.. with (atime_ns, mtime_ns); "ref" is the reference file
    pub files: Vec<(i64, i64)>,
    pub ref_times: (i64, i64),
    /// touch these files' mode after a pause-free second chmod so that ctimes
    /// of consecutive files may coincide
    pub test: Test,
    /// absolute clock, or relative to the ctime of file `rel_file` read back
    pub now_ns: i64,
    pub now_rel_ctime: Option<(usize, i64)>,
    /// applied in order after the tree exists
    pub placements: Vec<Placement>,
    /// a second time test in the same expression (conjunction), on the settable timestamps only
    #[serde(default)]
    pub second: Option<Test>,
    /// -H / -L before the starting point, or -follow in the expression (no link is involved:
    /// the tests must not change meaning with the follow mode)
    #[serde(default)]
    pub follow: Option<String>,
    /// neutral options (see FindScenario::gen_extras)
    #[serde(default)]
    pub extras_pre: Vec<String>,
    #[serde(default)]
    pub extras_global: Vec<String>,
    /// process environment of the run (TZ with daylight saving among it)
    #[serde(default)]
    pub ambient: crate::ambient::Ambient,
    /// `-daystart` written after the time tests: it only concerns tests that follow it
    #[serde(default)]
    pub daystart_after: bool,
}

/// Set `which` ('a' or 'm') of `file` (None = the reference file) to the real
/// ctime of `anchor` (None = the reference file) plus `delta` ns; or bump the
/// ctime of `file` with a chmod when `which` is 'c'.
#[derive(Clone, Debug, PartialEq, Eq, Serialize, Deserialize)]
pub struct Placement {
    pub file: Option<usize>,
    pub which: char,
    pub anchor: Option<usize>,
    pub delta: i64,
}

pub struct C15;

const DAY: i64 = 86_400;
const NS: i64 = 1_000_000_000;

fn eps(rng: &mut Rng) -> i64 {
    match rng.weighted(&[2, 3, 4, 3, 2, 4]) {
        0 => -NS,
        1 => -1,
        2 => 0,
        3 => 1,
        4 => NS,
        _ => rng.irange(-(NS - 1), NS - 1),
    }
}

/// An instant for the reference file of the -newer family: a year or so before the clock,
/// or (`old`) before the epoch, down to fractions of a second before it.
fn ref_instant(rng: &mut Rng, base_now: i64, old: bool) -> i64 {
    if !old {
        // (a quarter of the time at a whole second, as `touch -d`, tar and FAT leave them)
        let frac = if rng.chance(1, 4) { 0 } else { rng.irange(0, NS - 1) };
        return base_now.div_euclid(NS) * NS - rng.irange(1, 500) * DAY * NS + frac;
    }
    match rng.weighted(&[3, 1, 1]) {
        0 => -(rng.irange(1, 15_000) * DAY * NS) + rng.irange(0, NS - 1),
        1 => -rng.irange(1, NS - 1),
        _ => rng.irange(-3, 3),
    }
}

impl Property for C15 {
    const ID: &'static str = "C15";
    type Sc = Sc;

    fn generate(rng: &mut Rng, _tier: Tier) -> Sc {
        // a clock decades away from the wall clock
        let base_now: i64 = 3_786_912_000 * NS + rng.irange(0, 400 * DAY) * NS + rng.irange(0, NS - 1);
        let kind = rng.weighted(&[55, 10, 10, 25]);
        // the reference file's timestamps (and with them the entries') lie before 1970
        let old = rng.chance(1, 8);
        let mut nfiles = rng.urange(1, 6);
        let mut files = vec![];
        let mut now_rel_ctime = None;
        let mut placements: Vec<Placement> = vec![];
        let test;
        let mut ref_times = (base_now - 1000 * DAY * NS, base_now - 900 * DAY * NS);
        match kind {
            0 => {
                let which = *rng.pick(&['a', 'c', 'm']);
                if which == 'c' {
                    // one file: the clock is placed relative to its real ctime,
                    // which makes the run independent of the kernel clock's ticks
                    nfiles = 1;
                }
                let minutes = rng.chance(1, 2);
                let period = if minutes { 60 } else { DAY };
                let k = match rng.weighted(&[6, 6, 6, 2, 1]) {
                    0 => 0,
                    1 => rng.irange(1, 3),
                    2 => rng.irange(4, 400),
                    3 => rng.irange(400, 20_000),
                    // timestamps before 1970 (the clock is near 2090)
                    _ => if minutes { rng.irange(63_000_000, 90_000_000) } else { rng.irange(44_000, 60_000) },
                };
                // now and then the timestamp under test is the epoch itself (or a nanosecond
                // or a second off it): an absolute value, not an age, that code may single out
                let epoch_anchor = which != 'c' && rng.chance(1, 25);
                let k = if epoch_anchor { base_now / (period * NS) } else { k };
                let n = (k + rng.irange(-1, 1)).max(0) as u64;
                let cmp = *rng.pick(&['=', '+', '-']);
                test = Test::Age { which, minutes, cmp, n };
                for fi in 0..nfiles {
                    // age = k' * period + eps, around the boundary under test
                    let kk = (k + rng.irange(-1, 1)).max(0);
                    let mut age = (kk * period * NS + eps(rng)).max(0);
                    if epoch_anchor && fi == 0 {
                        age = base_now - *rng.pick(&[0i64, 0, 1, NS, -1, -NS]);
                    }
                    let other_age = rng.irange(0, 800 * DAY) * NS + rng.irange(0, NS - 1);
                    let (a, m) = match which {
                        'a' => (base_now - age, base_now - other_age),
                        _ => (base_now - other_age, base_now - age),
                    };
                    files.push((a, m));
                }
                if which == 'c' {
                    // ctime cannot be set: the clock is placed relative to it
                    let kk = (k + rng.irange(-1, 0)).max(0);
                    let delta = (kk * period * NS + eps(rng)).max(0);
                    now_rel_ctime = Some((rng.usize_below(nfiles), delta));
                }
            }
            1 => {
                test = Test::Newer;
                let rm = ref_instant(rng, base_now, old);
                ref_times = (base_now - rng.irange(0, 900 * DAY) * NS, rm);
                for _ in 0..nfiles {
                    let m = rm + *rng.pick(&[-NS, -1, 0, 0, 1, NS, 5 * DAY * NS, -5 * DAY * NS]);
                    files.push((base_now - rng.irange(0, 900 * DAY) * NS, m));
                }
            }
            2 => {
                let x = *rng.pick(&['a', 'c']);
                test = Test::ShortNewer { x };
                if x == 'c' {
                    nfiles = 1;
                    // entry.c is the real time of the run: put ref.m around it
                    placements.push(Placement {
                        file: None,
                        which: 'm',
                        anchor: Some(rng.usize_below(nfiles)),
                        delta: *rng.pick(&[-NS, -1, 0, 1, NS]),
                    });
                }
                let rm = ref_instant(rng, base_now, old);
                ref_times = (rm + rng.irange(-10, 10) * DAY * NS, rm);
                for i in 0..nfiles {
                    let d = *rng.pick(&[-NS, -1, 0, 0, 1, NS, 5 * DAY * NS, -5 * DAY * NS]);
                    // entry.X against ref.m; the other timestamps disagree
                    files.push((rm + d, rm - d - DAY * NS));
                    let _ = i;
                }
            }
            _ => {
                let x = *rng.pick(&['a', 'c', 'm']);
                let y = *rng.pick(&['a', 'c', 'm']);
                test = Test::NewerXY { x, y };
                if x == 'c' && y != 'c' {
                    nfiles = 1;
                }
                // reference file with three different timestamps
                let ra = ref_instant(rng, base_now, old);
                let rm = ra + *rng.pick(&[-300, -7, 7, 300]) * DAY * NS;
                ref_times = (ra, rm);
                let ry = match y {
                    'a' => ra,
                    _ => rm,
                };
                for _ in 0..nfiles {
                    let d = *rng.pick(&[-NS, -1, 0, 0, 1, NS, 3 * DAY * NS, -3 * DAY * NS]);
                    // the X timestamp sits at ref.Y + d; the other one is far on
                    // the opposite side, so that confusing X with the other
                    // timestamp, or Y with another of ref's, flips the answer
                    let far = if d > 0 { -100 * DAY * NS } else { 100 * DAY * NS };
                    let (a, m) = match x {
                        'a' => (ry + d, ry + far),
                        _ => (ry + far, ry + d),
                    };
                    files.push((a, m));
                }
                if y == 'c' && x != 'c' {
                    // ref.c is the real time of the run: place entries' X around it
                    for i in 0..nfiles {
                        placements.push(Placement {
                            file: Some(i),
                            which: x,
                            anchor: None,
                            delta: *rng.pick(&[-NS, -1, 0, 1, NS, -3 * DAY * NS, 3 * DAY * NS]),
                        });
                    }
                } else if x == 'c' && y != 'c' {
                    // entry.c is real: place ref.Y around the ctime of one entry
                    placements.push(Placement {
                        file: None,
                        which: y,
                        anchor: Some(rng.usize_below(nfiles)),
                        delta: *rng.pick(&[-NS, -1, 0, 1, NS]),
                    });
                } else if x == 'c' && y == 'c' {
                    // bump some entries' ctime after ref exists
                    for i in 0..nfiles {
                        if rng.chance(1, 2) {
                            placements.push(Placement { file: Some(i), which: 'c', anchor: None, delta: 0 });
                        }
                    }
                }
            }
        }
        // a second test naming the same reference file (or another age test): both must be
        // evaluated on their own timestamps
        let second = if rng.chance(1, 5) {
            let am = |rng: &mut Rng| *rng.pick(&['a', 'm']);
            Some(match rng.weighted(&[5, 1, 1, 2]) {
                0 => Test::NewerXY { x: am(rng), y: am(rng) },
                1 => Test::Newer,
                2 => Test::ShortNewer { x: 'a' },
                _ => Test::Age { which: am(rng), minutes: rng.chance(1, 2), cmp: *rng.pick(&['+', '-']), n: rng.irange(0, 400) as u64 },
            })
        } else {
            None
        };
        let mut ex = FindScenario::new(TreeSpec::default(), vec![]);
        ex.gen_extras(rng, true);
        Sc {
            daystart_after: rng.chance(1, 8),
            extras_pre: ex.extras_pre,
            extras_global: ex.extras_global,
            ambient: ex.ambient,
            files,
            ref_times,
            test,
            now_ns: base_now,
            now_rel_ctime,
            placements,
            second,
            follow: if rng.chance(1, 5) { Some(rng.pick(&["-H", "-L", "-follow"]).to_string()) } else { None },
        }
    }

    fn budget(tier: Tier) -> u64 {
        match tier {
            Tier::Quick => 300_000,
            Tier::Thorough => 6_000_000,
        }
    }

    fn check(sc: &Sc, ctx: &mut Ctx, rep: &mut Report) {
        // "now" of the real executable is fixed when find starts: the clock of
        // StandardDependencies is read at construction, not at first use, and never again
        {
            use findutils::find::Dependencies;
            use std::time::SystemTime;
            let before = SystemTime::now();
            let deps = findutils::find::StandardDependencies::new();
            let after = SystemTime::now();
            while SystemTime::now() <= after {}
            let n1 = deps.now();
            let n2 = deps.now();
            if n1 < before || n1 > after || n1 != n2 {
                rep.fail(
                    "C15.now-not-fixed-at-start",
                    format!("StandardDependencies::new() ran between {before:?} and {after:?} but now() answers {n1:?}, then {n2:?}"),
                );
                return;
            }
        }
        let mut spec = TreeSpec::default();
        spec.nodes.push(Node::Dir { path: "d".into() });
        for (i, (a, m)) in sc.files.iter().enumerate() {
            spec.nodes.push(Node::File {
                path: format!("d/f{i}"),
                size: 1,
                token: i as u32,
                atime_ns: Some(*a),
                mtime_ns: Some(*m),
            });
        }
        spec.nodes.push(Node::File {
            path: "ref".into(),
            size: 1,
            token: 99,
            atime_ns: Some(sc.ref_times.0),
            mtime_ns: Some(sc.ref_times.1),
        });
        let root = ctx.scratch.join("A");
        let _ = std::env::set_current_dir(&ctx.scratch);
        crate::sys::wipe(&root);
        std::fs::create_dir_all(&root).expect("scratch root");
        if let Err(e) = tree::build(&root, &spec) {
            rep.fail("C15.HARNESS-tree-build", format!("{e}"));
            return;
        }
        let stamp = |p: &std::path::Path| -> (i128, i128, i128) {
            let m = std::fs::symlink_metadata(p).expect("lstat");
            (
                m.atime() as i128 * NS as i128 + m.atime_nsec() as i128,
                m.ctime() as i128 * NS as i128 + m.ctime_nsec() as i128,
                m.mtime() as i128 * NS as i128 + m.mtime_nsec() as i128,
            )
        };
        let path_of = |f: Option<usize>| match f {
            Some(i) => root.join(format!("d/f{i}")),
            None => root.join("ref"),
        };
        for pl in &sc.placements {
            let p = path_of(pl.file);
            let r = if pl.which == 'c' {
                use std::os::unix::fs::PermissionsExt;
                std::fs::set_permissions(&p, std::fs::Permissions::from_mode(0o640))
            } else {
                let v = (stamp(&path_of(pl.anchor)).1 + pl.delta as i128) as i64;
                match pl.which {
                    'a' => tree::set_times(&p, Some(v), None),
                    _ => tree::set_times(&p, None, Some(v)),
                }
            };
            if r.is_err() {
                rep.fail("C15.HARNESS-placement", "cannot place timestamp".to_string());
                return;
            }
        }
        let mut now: i128 = sc.now_ns as i128;
        if let Some((i, delta)) = sc.now_rel_ctime {
            now = stamp(&root.join(format!("d/f{i}"))).1 + delta as i128;
        }
        let reft = stamp(&root.join("ref"));
        let stamps: Vec<(i128, i128, i128)> = (0..sc.files.len()).map(|i| stamp(&root.join(format!("d/f{i}")))).collect();
        let pickt = |t: &(i128, i128, i128), w: char| match w {
            'a' => t.0,
            'c' => t.1,
            _ => t.2,
        };
        // ctime cannot be set. Scenarios with one real ctime are anchored to it
        // (single file, or every file placed relative to the reference's
        // ctime) and are reproducible. -newercc compares two real ctimes: the
        // kernel clock's tick decides whether two files created microseconds
        // apart share a ctime, so the outcome of such a run is judged against
        // the values read back but is not replay-deterministic; its output is
        // kept out of the abstract trace and its probes are prefixed rt_.
        let rt = matches!(&sc.test, Test::NewerXY { x: 'c', y: 'c' });
        // reference evaluation, exact in integer nanoseconds
        let mut expected: Vec<Option<bool>> = vec![];
        for t in &stamps {
            let e = match &sc.test {
                Test::Age { which, minutes, cmp, n } => {
                    let age = now - pickt(t, *which);
                    if age < 0 {
                        None // the statement speaks of ages >= 0
                    } else {
                        let period = if *minutes { 60 } else { DAY } as i128 * NS as i128;
                        let periods = (age / period) as u64;
                        if !rt {
                            rep.sim_time_s += age as f64 / 1e9;
                        }
                        let rem = age % period;
                        if rem == 0 {
                            rep.probe(if rt { "rt_age_exactly_k_periods" } else { "age_exactly_k_periods" });
                        } else if rem == 1 || rem == period - 1 {
                            rep.probe(if rt { "rt_age_one_nanosecond_from_boundary" } else { "age_one_nanosecond_from_boundary" });
                        } else if rem <= NS as i128 || rem >= period - NS as i128 {
                            rep.probe(if rt { "rt_age_within_one_second_of_boundary" } else { "age_within_one_second_of_boundary" });
                        }
                        Some(match cmp {
                            '+' => periods > *n,
                            '-' => periods < *n,
                            _ => periods == *n,
                        })
                    }
                }
                Test::Newer => Some(t.2 > reft.2),
                Test::ShortNewer { x } => Some(pickt(t, *x) > reft.2),
                Test::NewerXY { x, y } => Some(pickt(t, *x) > pickt(&reft, *y)),
            };
            if let (Some(_), Test::Newer | Test::ShortNewer { .. } | Test::NewerXY { .. }) = (&e, &sc.test) {
                let (l, r) = match &sc.test {
                    Test::Newer => (t.2, reft.2),
                    Test::ShortNewer { x } => (pickt(t, *x), reft.2),
                    Test::NewerXY { x, y } => (pickt(t, *x), pickt(&reft, *y)),
                    _ => unreachable!(),
                };
                if l == r {
                    rep.probe(if rt { "rt_timestamps_exactly_equal" } else { "timestamps_exactly_equal" });
                } else if (l - r).abs() == 1 {
                    rep.probe(if rt { "rt_timestamps_one_nanosecond_apart" } else { "timestamps_one_nanosecond_apart" });
                }
            }
            // conjunction with the second test, evaluated the same way
            let e2 = sc.second.as_ref().map(|t2| match t2 {
                Test::Age { which, minutes, cmp, n } => {
                    let age = now - pickt(t, *which);
                    if age < 0 {
                        None
                    } else {
                        let period = if *minutes { 60 } else { DAY } as i128 * NS as i128;
                        let periods = (age / period) as u64;
                        Some(match cmp {
                            '+' => periods > *n,
                            '-' => periods < *n,
                            _ => periods == *n,
                        })
                    }
                }
                Test::Newer => Some(t.2 > reft.2),
                Test::ShortNewer { x } => Some(pickt(t, *x) > reft.2),
                Test::NewerXY { x, y } => Some(pickt(t, *x) > pickt(&reft, *y)),
            });
            let e = match (e, e2) {
                (e, None) => e,
                (Some(a), Some(Some(b))) => Some(a && b),
                _ => None,
            };
            expected.push(e);
        }
        if sc.second.is_some() {
            rep.probe("two_time_tests_in_one_expression");
        }
        if stamps.iter().any(|t| t.0 < 0 || t.2 < 0) {
            rep.probe("timestamp_before_the_epoch");
        }
        match &sc.test {
            Test::Age { which: 'c', .. } => rep.probe("ctime_test_clock_relative_to_real_ctime"),
            Test::NewerXY { x, y } if x != y => rep.probe("newerXY_with_X_different_from_Y"),
            Test::NewerXY { .. } => rep.probe("newerXY_with_X_equal_Y"),
            _ => {}
        }
        // the abstract trace of a C15 run: which test, and for every file on
        // which side of which boundary it sits and what is expected
        for a in sc.test.args().iter().take(1) {
            rep.trace.str(a);
        }
        if let Test::Age { cmp, .. } = &sc.test {
            rep.trace.byte(*cmp as u8);
        }
        for (t, e) in stamps.iter().zip(&expected) {
            if rt {
                break;
            }
            rep.trace.byte(match e {
                None => 2,
                Some(true) => 1,
                Some(false) => 0,
            });
            if let Test::Age { which, minutes, n, .. } = &sc.test {
                let period = if *minutes { 60 } else { DAY } as i128 * NS as i128;
                let age = now - pickt(t, *which);
                if age >= 0 {
                    let rem = age % period;
                    rep.trace.byte(if rem == 0 { 0 } else if rem < NS as i128 { 1 } else if rem >= period - NS as i128 { 2 } else { 3 });
                    let k = (age / period) as i128 - *n as i128;
                    rep.trace.byte(k.clamp(-2, 2) as i8 as u8);
                    rep.trace.u64(crate::rng::bucket((age / period) as usize));
                }
            }
        }
        let mut argv = vec![];
        match sc.follow.as_deref() {
            Some(f @ ("-H" | "-L")) => argv.push(f.to_string()),
            _ => {}
        }
        argv.extend(["d".to_string(), "-type".into(), "f".into()]);
        if sc.follow.as_deref() == Some("-follow") {
            argv.push("-follow".into());
        }
        if sc.follow.is_some() {
            rep.probe("follow_mode_in_effect");
        }
        argv.extend(sc.test.args());
        if let Some(t2) = &sc.second {
            argv.extend(t2.args());
        }
        if sc.daystart_after {
            argv.push("-daystart".into());
            rep.probe("daystart_after_the_time_tests");
        }
        argv.push("-print0".into());
        let mut find = FindScenario::new(TreeSpec::default(), argv.clone());
        find.extras_pre = sc.extras_pre.clone();
        find.extras_global = sc.extras_global.clone();
        find.ambient = sc.ambient.clone();
        find.now_ns = Some(now as i64);
        let obs = run_find_prebuilt(&find, ctx, root);
        rep.executions += 1;
        if rt {
            rep.probe("rt_both_sides_are_real_ctimes");
        } else {
            account_find(&obs, rep);
        }
        if let RunStatus::Panic(msg) = &obs.status {
            rep.fail("C15.panic", format!("argv {argv:?}: {msg}"));
            return;
        }
        if obs.status != RunStatus::Exit(0) {
            rep.fail("C15.exit-status", format!("argv {argv:?}: status {:?}, stderr {}", obs.status, crate::sys::lossy(&obs.stderr)));
            return;
        }
        let (records, _) = obs.records(0);
        let printed: std::collections::BTreeSet<String> = records.iter().map(|r| String::from_utf8_lossy(r).into_owned()).collect();
        for (i, e) in expected.iter().enumerate() {
            let Some(e) = e else { continue };
            let got = printed.contains(&format!("d/f{i}"));
            if got != *e {
                let class = match &sc.test {
                    _ if sc.second.is_some() => "C15.two-time-tests",
                    Test::Age { minutes: false, .. } => "C15.time-periods",
                    Test::Age { minutes: true, .. } => "C15.min-periods",
                    Test::Newer => "C15.newer",
                    Test::ShortNewer { .. } => "C15.anewer-cnewer",
                    Test::NewerXY { x, y } if x == y => "C15.newerXY-same-kind",
                    Test::NewerXY { .. } => "C15.newerXY",
                };
                let t = &stamps[i];
                rep.fail(
                    class,
                    format!(
                        "argv {argv:?} now={now}: d/f{i} (a={} c={} m={}; age for the test {} ns) ref (a={} c={} m={}): expected {} got {}",
                        t.0, t.1, t.2,
                        match &sc.test { Test::Age { which, .. } => (now - pickt(t, *which)).to_string(), _ => "-".into() },
                        reft.0, reft.1, reft.2, e, got
                    ),
                );
                return;
            }
        }
        if rep.want_sample {
            rep.sample = Some(json!({
                "argv": argv, "now_ns": now.to_string(),
                "files": stamps.iter().enumerate().map(|(i, t)| json!({"path": format!("d/f{i}"), "atime_ns": t.0.to_string(), "ctime_ns": t.1.to_string(), "mtime_ns": t.2.to_string(), "expected": expected[i]})).collect::<Vec<_>>(),
                "ref": {"atime_ns": reft.0.to_string(), "ctime_ns": reft.1.to_string(), "mtime_ns": reft.2.to_string()},
                "printed": printed,
            }));
        }
    }

    fn shrink(sc: &Sc) -> Vec<Sc> {
        let mut out = vec![];
        if sc.second.is_some() {
            let mut s = sc.clone();
            s.second = None;
            out.push(s);
        }
        if sc.follow.is_some() {
            let mut s = sc.clone();
            s.follow = None;
            out.push(s);
        }
        if sc.daystart_after {
            let mut s = sc.clone();
            s.daystart_after = false;
            out.push(s);
        }
        if sc.files.len() > 1 {
            for i in 0..sc.files.len() {
                let used = sc.now_rel_ctime.map(|x| x.0) == Some(i)
                    || sc.placements.iter().any(|p| p.file == Some(i) || p.anchor == Some(i));
                if used {
                    continue;
                }
                let mut s = sc.clone();
                s.files.remove(i);
                if let Some((j, d)) = s.now_rel_ctime {
                    if j > i {
                        s.now_rel_ctime = Some((j - 1, d));
                    }
                }
                for p in s.placements.iter_mut() {
                    if let Some(j) = p.file {
                        if j > i {
                            p.file = Some(j - 1);
                        }
                    }
                    if let Some(j) = p.anchor {
                        if j > i {
                            p.anchor = Some(j - 1);
                        }
                    }
                }
                out.push(s);
            }
        }
        for i in 0..sc.placements.len() {
            let mut s = sc.clone();
            s.placements.remove(i);
            out.push(s);
        }
        out
    }

    fn rule() -> &'static str {
        "one evaluation = one seeded scenario: 1-6 regular files whose atime and mtime are set independently at nanosecond resolution (utimensat), a reference file with three different timestamps, an injected clock `now` decades from the wall clock placed at timestamp + k*period + eps (period 60 s or 86400 s, k in 0..20000, eps in {-1 s, -1 ns, 0, +1 ns, +1 s, random sub-second}); for ctime, which cannot be set, the clock (or the other side of the comparison) is placed relative to the real ctime read back with lstat; one of -{a,c,m}time/-{a,c,m}min N|+N|-N, -newer, -anewer, -cnewer, -newerXY (nine XY) per run; oracle: exact integer-nanosecond arithmetic on the lstat records; a fifth of the runs carry a second time test and a fifth a follow flag; ages reach back before 1970, so do reference timestamps of the -newer family (down to fractions of a second before the epoch); the process environment is a dimension too (variables nobody should listen to such as POSIXLY_CORRECT, TZ with daylight saving, LC_ALL, in a sixth of the runs; descriptor 1 a terminal in a tenth); every run also checks that StandardDependencies::now() is fixed at construction; distinct = distinct abstract trace x boundary probes; non-trivial = a boundary probe hit (age exactly k periods / 1 ns / within 1 s of it, equal or 1-ns-apart timestamps, X != Y)"
    }

    fn components() -> Value {
        json!({
            "real": ["parse of the time primaries (convert_arg_to_comparable_value, parse_str_to_newer_args)", "FileTimeMatcher", "FileAgeRangeMatcher", "NewerMatcher", "NewerOptionMatcher", "ChangeTime", "WalkEntry::metadata", "the kernel's timestamps on tmpfs (nanosecond resolution)"],
            "stub": ["clock: Dependencies::now() returns the scenario's instant", "stdout (SimSink)"]
        })
    }

    fn assumptions() -> Vec<&'static str> {
        vec![
            "only ages >= 0 are judged, as the statement is quantified; entries whose age is negative are ignored",
            "only regular files are used (find's own readdir/readlink may update the atime of directories and links)",
            "ctime is the real kernel time of the run; scenarios store offsets from it",
        ]
    }
}
