//! C19 — xargs exit status is the documented function of its children's outcomes.

use serde_json::{json, Value};

use crate::ctx::Ctx;
use crate::prop::{Property, Report, Tier};
use crate::rng::Rng;
use crate::world::{Outcome, B};
use crate::xargs::{expect_with, is_fatal, resolve, run_xargs, tokenize, Opt, RealKind, XargsScenario};
use crate::xgen::*;
use crate::xoracle::Judge;

pub struct C19;

fn gen_tokens(rng: &mut Rng, m: usize, nul: bool) -> Vec<u8> {
    let mut input = Vec::new();
    for i in 0..m {
        input.extend_from_slice(format!("a{i}").as_bytes());
        if nul {
            input.push(0);
        } else if i + 1 < m || rng.chance(2, 3) {
            input.push(*rng.pick(&[b' ', b'\n', b'\n']));
        }
    }
    input
}

impl Property for C19 {
    const ID: &'static str = "C19";
    type Sc = XargsScenario;

    fn generate(rng: &mut Rng, _tier: Tier) -> XargsScenario {
        if rng.chance(1, 300) {
            // exactly 256 or 512 invocations fail with an ordinary status (no fatal one): 123
            let failing = *rng.pick(&[256usize, 256, 512, 255, 257]);
            let total = failing + *rng.pick(&[0usize, 0, 1, 44, 300]);
            let mut outcomes: Vec<Outcome> = (0..total).map(|k| if k < failing { Outcome::Exit(*rng.pick(&[1, 2, 77, 125])) } else { Outcome::Exit(0) }).collect();
            rng.shuffle(&mut outcomes);
            let replace = rng.chance(1, 3);
            let mut input = Vec::new();
            for i in 0..total {
                input.extend_from_slice(format!("a{i}\n").as_bytes());
            }
            return XargsScenario {
                opts: if replace { vec![Opt::ReplI("{}".into())] } else { vec![Opt::N(1)] },
                cmd: if replace { vec!["CMD".into(), "{}".into()] } else { vec!["CMD".into()] },
                input: B(input),
                read_plan: vec![],
                outcomes,
                rlimit_stack: None,
                env: None,
                real: None,
                note: "script exact-count".into(),
                decoy_in_cwd: false,
                echo_mode: false,
                extra: Default::default(),
            };
        }
        let mut sc = XargsScenario {
            opts: vec![],
            cmd: vec!["CMD".into()],
            input: B(vec![]),
            read_plan: vec![],
            outcomes: vec![],
            rlimit_stack: None,
            env: None,
            real: None,
            note: String::new(),
            decoy_in_cwd: false,
            echo_mode: false,
            extra: Default::default(),
        };
        for i in 0..rng.small(0, 2) {
            sc.cmd.push(format!("i{i}"));
        }
        let kind = rng.weighted(&[78, 10, 4, 4, 4, 3]);
        match kind {
            1 => {
                // xargs' own errors
                sc.note = "own-error".into();
                match rng.below(12) {
                    11 => {
                        // an argument one byte beyond what the kernel takes as a single string
                        // (or more): xargs' own error, whatever the children did before
                        sc.opts.push(Opt::N(1));
                        let m = rng.urange(0, 3);
                        let mut inp = gen_tokens(rng, m, false);
                        if m > 0 && !inp.ends_with(b" ") && !inp.ends_with(b"\n") {
                            inp.push(b'\n');
                        }
                        inp.extend(std::iter::repeat(b'G').take(*rng.pick(&[131_072usize, 131_072, 131_073, 140_000])));
                        inp.extend_from_slice(b"\nzz\n");
                        sc.input = B(inp);
                        sc.outcomes = gen_outcomes(rng, m + 1, false);
                    }
                    8 => {
                        // a numeric escape that does not fit in one byte is a bad option value
                        sc.opts.push(Opt::Delim(rng.pick(&["\\x100", "\\x161", "\\0400", "\\0777", "\\x1ff", "\\x", "\\08"]).to_string()));
                    }
                    9 | 10 => {
                        // -x with -L 1: every word fits, the line as a whole does not
                        let base: usize = sc.cmd.iter().map(|c| c.len() + 1).sum();
                        sc.opts.push(Opt::X);
                        sc.opts.push(Opt::L(1));
                        sc.opts.push(Opt::S(base + rng.urange(6, 9)));
                        let m = rng.urange(0, 3);
                        let mut inp = vec![];
                        for i in 0..m {
                            inp.extend_from_slice(format!("a{i}\n").as_bytes());
                        }
                        inp.extend_from_slice(b"ab cd ef gh\nzz\n");
                        sc.input = B(inp);
                        sc.outcomes = gen_outcomes(rng, m + 1, false);
                    }
                    0 => sc.opts.push(Opt::N(0)),
                    1 => sc.opts.push(Opt::L(0)),
                    2 => sc.opts.push(Opt::S(0)),
                    3 => sc.opts.push(Opt::Delim("abc".into())),
                    4 => sc.opts.push(Opt::Raw(vec!["-n".into(), "x".into()])),
                    5 => sc.opts.push(Opt::Raw(vec!["--no-such-option".into()])),
                    6 => {
                        // unterminated quote after some complete arguments
                        sc.opts.push(Opt::N(1));
                        let m = rng.urange(0, 4);
                        sc.input = B(gen_tokens(rng, m, false));
                        if m > 0 && !sc.input.0.ends_with(b" ") && !sc.input.0.ends_with(b"\n") {
                            sc.input.0.push(b' ');
                        }
                        // ... followed by text, or as the very last byte of the input
                        sc.input.0.extend_from_slice(match rng.below(4) {
                            0 => b"'open".as_slice(),
                            1 => b"\"open",
                            2 => b"'",
                            _ => b"\"",
                        });
                        sc.outcomes = gen_outcomes(rng, m + 1, false);
                    }
                    _ => {
                        // an argument that cannot fit under -s
                        let base: usize = sc.cmd.iter().map(|c| c.len() + 1).sum();
                        sc.opts.push(Opt::S(base + 6));
                        sc.opts.push(Opt::N(1));
                        let m = rng.urange(0, 3);
                        sc.input = B(gen_tokens(rng, m, false));
                        sc.input.0.extend_from_slice(b" toolongargument\n");
                        sc.outcomes = gen_outcomes(rng, m + 1, false);
                    }
                }
                if matches!(sc.opts.last(), Some(Opt::Raw(_)) | Some(Opt::Delim(_)))
                    || matches!(sc.opts.last(), Some(Opt::N(0)) | Some(Opt::L(0)) | Some(Opt::S(0)))
                {
                    sc.input = B(gen_tokens(rng, 3, false));
                }
            }
            5 => {
                // a bare command name found through PATH (in its last directory; an earlier one
                // may hold a file of that name that cannot be executed): it runs
                sc.cmd[0] = "@REAL".into();
                let m = rng.urange(1, 4);
                sc.opts.push(Opt::N(1));
                sc.input = B(gen_tokens(rng, m, false));
                sc.real = Some(RealKind::SimchildOnPath { shadowed: rng.chance(2, 3) });
                sc.note = "real-simchild-on-path".into();
                for _ in 0..m {
                    sc.outcomes.push(if rng.chance(1, 3) { Outcome::Exit(*rng.pick(&[1, 2, 125])) } else { Outcome::Exit(0) });
                }
                return sc;
            }
            2 | 3 | 4 => {
                // calibration against real processes
                sc.cmd[0] = "@REAL".into();
                let m = rng.urange(1, 4);
                sc.opts.push(Opt::N(1));
                sc.input = B(gen_tokens(rng, m, false));
                match kind {
                    2 => {
                        sc.real = Some(RealKind::Simchild);
                        sc.note = "real-simchild".into();
                        for _ in 0..m {
                            sc.outcomes.push(match rng.weighted(&[4, 3, 1, 2]) {
                                0 => Outcome::Exit(0),
                                1 => Outcome::Exit(*rng.pick(&[1, 2, 125, 77])),
                                2 => Outcome::Exit(255),
                                _ => Outcome::Signal(*rng.pick(&[9, 15, 1, 10, 13, 6]), false),
                            });
                        }
                    }
                    3 => {
                        sc.real = Some(RealKind::Missing);
                        sc.note = "real-missing".into();
                        sc.outcomes = vec![Outcome::SpawnErr(libc::ENOENT)];
                    }
                    _ => {
                        sc.real = Some(RealKind::NotExecutable);
                        sc.note = "real-not-executable".into();
                        sc.outcomes = vec![Outcome::SpawnErr(libc::EACCES)];
                    }
                }
                if rng.chance(1, 3) {
                    // the arguments come from -a FILE: the children keep xargs' standard input,
                    // and a command that cannot be started is still 127 / 126
                    sc.opts.push(Opt::ArgFile);
                }
                return sc;
            }
            _ => {
                let nul = rng.chance(1, 6);
                if nul {
                    sc.opts.push(Opt::Null);
                }
                // empty input (nothing, blanks only, delimiters only): without -r the one
                // invocation's outcome is the exit status
                let m = if rng.chance(1, 12) { 0 } else { rng.small(1, 12) };
                let mut per = *rng.pick(&[1usize, 1, 1, 2, 3]);
                let replace = !nul && m > 0 && rng.chance(1, 7);
                if replace {
                    // replace mode: one invocation per line, same outcome fold
                    per = 1;
                    sc.opts.push(match rng.below(3) {
                        0 => Opt::ReplI("{}".into()),
                        1 => Opt::ReplShort,
                        _ => Opt::ReplI("R".into()),
                    });
                    let r = if matches!(sc.opts.last(), Some(Opt::ReplI(x)) if x == "R") { "R" } else { "{}" };
                    sc.cmd.push(format!("<{r}>"));
                } else if per > 1 || rng.chance(4, 5) {
                    if !nul && rng.chance(1, 5) && per == 1 {
                        sc.opts.push(Opt::L(1));
                    } else {
                        sc.opts.push(Opt::N(per));
                    }
                }
                if rng.chance(1, 4) {
                    sc.opts.push(Opt::R);
                }
                sc.input = B(gen_tokens(rng, m, nul));
                if m == 0 {
                    sc.input = B(match (nul, rng.below(3)) {
                        (_, 0) => vec![],
                        (true, _) => vec![0, 0],
                        (false, 1) => b" \n\t \n".to_vec(),
                        (false, _) => b"\n".to_vec(),
                    });
                }
                if !nul && (replace || sc.opts.contains(&Opt::L(1))) {
                    // one argument per line
                    for b in sc.input.0.iter_mut() {
                        if *b == b' ' {
                            *b = b'\n';
                        }
                    }
                }
                let batches = m.div_ceil(per).max(1);
                let extra = rng.usize_below(2);
                sc.outcomes = gen_outcomes(rng, batches + extra, true);
                sc.note = "script".into();
            }
        }
        // the command is looked up on PATH, never in the current directory
        sc.decoy_in_cwd = sc.real.is_none() && rng.chance(1, 6);
        let cfg = resolve(&sc.opts);
        let sep = match cfg.delim {
            Some(d) => vec![d],
            None => vec![b' ', b'\n', b'\t'],
        };
        sc.read_plan = gen_any_plan(rng, &sc.input.0.clone(), cfg.delim.is_none(), &sep);
        add_neutral_xargs_opts(rng, &mut sc.opts);
        add_ambient_xargs(rng, &mut sc);
        sc
    }

    fn budget(tier: Tier) -> u64 {
        match tier {
            Tier::Quick => 600_000,
            Tier::Thorough => 12_000_000,
        }
    }

    fn check(sc: &XargsScenario, ctx: &mut Ctx, rep: &mut Report) {
        let cfg = resolve(&sc.opts);
        let spec = tokenize(&cfg, &sc.input.0);
        let obs = run_xargs(sc, ctx);
        rep.executions += 1;
        let exp = expect_with(sc, &obs.cmd, &cfg, &spec);
        let sep = match cfg.delim {
            Some(d) => vec![d],
            None => vec![b' ', b'\n', b'\t'],
        };
        let states = if cfg.delim.is_none() {
            Some(default_states(&sc.input.0))
        } else {
            None
        };
        account_reads(&obs.log, &sc.input.0, states.as_deref(), &sep, rep);
        trace_status(&obs, rep);
        // probes on the history shape
        let planned = exp.spawns.len();
        let mut seen_fail = false;
        for (k, o) in sc.outcomes.iter().enumerate().take(planned) {
            if is_fatal(o).is_some() {
                if k + 1 < planned.max(sc.outcomes.len().min(planned + 1)) {
                    rep.probe("fatal_outcome_before_last_batch");
                }
                if seen_fail {
                    rep.probe("fatal_after_ordinary_failure");
                }
                break;
            }
            if !matches!(o, Outcome::Exit(0)) {
                seen_fail = true;
            } else if seen_fail {
                rep.probe("success_after_failure");
            }
        }
        if exp.own_error.is_some() {
            rep.probe("own_error_expected");
        }
        if spec.toks.is_empty() && exp.spawns.len() == 1 {
            rep.probe("empty_input_single_invocation");
        }
        if matches!(cfg.mode, crate::xargs::Mode::Replace(_)) {
            rep.probe("replace_mode");
        }
        if sc.real.is_some() {
            rep.probe("real_child_processes");
        }
        if matches!(sc.real, Some(RealKind::SimchildOnPath { shadowed: true })) {
            rep.probe("command_found_on_path_behind_a_file_that_cannot_be_executed");
        }
        if sc.decoy_in_cwd && sc.outcomes.iter().take(planned.max(1)).any(|o| matches!(o, Outcome::SpawnErr(e) if *e == libc::ENOENT)) {
            rep.probe("command_not_found_while_a_file_of_that_name_is_in_the_current_directory");
        }
        let judge = Judge {
            prefix: "C19",
            sc,
            cfg: &cfg,
            spec: &spec,
            exp: &exp,
            tight_system: false,
            arg_max: 0,
            env_bytes: 0,
            env_count: 0,
        };
        judge.judge(&obs, rep);
        if rep.violation.is_none() {
            judge.judge_child_log(&obs, rep);
        }
        if rep.want_sample {
            rep.sample = Some(json!({
                "scenario": sc,
                "argv": sc.argv(),
                "expected": {"invocations": exp.spawns.len(), "exit": exp.exit, "own_error": exp.own_error},
                "observed": {"status": obs.status, "invocations": obs.spawn_argvs().iter().map(|a| a.iter().map(|x| crate::sys::show(x)).collect::<Vec<_>>()).collect::<Vec<_>>(),
                             "stderr": crate::sys::lossy(&obs.stderr)},
            }));
        }
    }

    fn shrink(sc: &XargsScenario) -> Vec<XargsScenario> {
        shrink_xargs(sc)
    }

    fn crosscheck(sc: &XargsScenario, ctx: &mut Ctx, bins: &std::path::Path) -> crate::crosscheck::Xc {
        crate::crosscheck::xargs(sc, &sc.read_plan, ctx, bins)
    }

    fn rule() -> &'static str {
        "one evaluation = one seeded (options, argument list, read plan, child-outcome script) scenario run through xargs_main; the outcome script is the fault sequence (exit 0 / 1..125 / 255, death by signal with or without core, spawn errors ENOENT/EACCES/ENOEXEC/ENOMEM/EAGAIN/E2BIG/ETXTBSY at every position), plus xargs' own errors (bad option values, unterminated quote, oversize argument) and a calibration slice with real child processes; also replace mode, empty input, a quote as last byte, out-of-range numeric -d escapes, -x -L 1 overflow inside a line, a decoy file named like the command in the current directory; environment variables nobody should listen to in an eighth of the runs; a slice of the scenarios also goes through the real xargs executable (standard input a pipe, a regular file, a regular file read from an offset); distinct = distinct abstract trace (read results, spawn arities and outcome classes, exit status); non-trivial = some child outcome other than exit 0, a read fault, or an own-error scenario"
    }

    fn components() -> Value {
        json!({
            "real": ["clap option parsing and validators", "argument readers", "limiter chain", "process_input (flush/stop logic)", "CommandBuilder::execute: classification of ExitStatus / io::Error", "xargs_main exit-status mapping"],
            "stub": ["stdin (SimStream)", "fork/exec/wait: fabricated ExitStatus::from_raw / io::Error::from_raw_os_error (fake mode)"],
            "real_in_calibration_slice": ["fork/exec/wait of /verif/sim/target/release/simchild, a missing path and a mode-0644 file"]
        })
    }

    fn assumptions() -> Vec<&'static str> {
        vec![
            "child exit codes 126..254 are not generated: the statement assigns them no status",
            "fabricated wait statuses are faithful (checked by the real-process slice: same scripts, same statuses)",
        ]
    }
}
