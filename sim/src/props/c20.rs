//! C20 — xargs -I: one run per input line, every occurrence replaced by the whole line.

use serde_json::{json, Value};

use crate::ctx::Ctx;
use crate::prop::{Property, Report, Tier};
use crate::rng::Rng;
use crate::world::B;
use crate::xargs::{expect_with, resolve, run_xargs, tokenize, Mode, Opt, XargsScenario};
use crate::xgen::*;
use crate::xoracle::Judge;

pub struct C20;

const REPLS: &[&str] = &[
    "{}", "{}", "{}", "_", "R", "%%", "\u{e9}", "aa", "{",
    // replacement strings whose proper prefix is also a suffix of that prefix: an occurrence
    // can begin inside a failed partial match ("aaab", "{{{}}}", "ababac")
    "aab", "{{}}", "%%n", "abac", "ab", "\u{e9}\u{e9}x", "=-=/",
];

fn gen_line(rng: &mut Rng, r: &str) -> Vec<u8> {
    let mut l = Vec::new();
    let words = rng.small(1, 4);
    for w in 0..words {
        if w > 0 {
            // blanks inside the line do not split it
            for _ in 0..rng.small(1, 2) {
                l.push(*rng.pick(&[b' ', b' ', b'\t']));
            }
        }
        match rng.weighted(&[10, 2, 2, 1]) {
            0 => {
                for _ in 0..rng.small(1, 5) {
                    l.push(*rng.pick(b"abcxyz019-_./"));
                }
            }
            1 => l.extend_from_slice(r.as_bytes()), // the line contains R itself
            2 => l.extend_from_slice("\u{e9}\u{1F600}".as_bytes()),
            _ => l.extend_from_slice(b"{}"),
        }
    }
    l
}

fn gen_initial(rng: &mut Rng, r: &str) -> String {
    let mut a = String::new();
    let pieces = rng.small(1, 4);
    for _ in 0..pieces {
        match rng.weighted(&[5, 5, 1, 2, 2]) {
            0 => {
                for _ in 0..rng.small(1, 4) {
                    a.push(*rng.pick(&['a', 'b', '-', '=', '/', '.', ' ']));
                }
            }
            1 => a.push_str(r),
            2 => {
                // R adjacent to itself
                a.push_str(r);
                a.push_str(r);
            }
            3 => {
                // a proper prefix of R (possibly repeated) directly before R: the occurrence
                // starts inside a partial match that fails
                let chars: Vec<char> = r.chars().collect();
                if chars.len() > 1 {
                    let k = rng.small(1, chars.len() - 1);
                    for _ in 0..rng.small(1, 2) {
                        a.extend(chars[..k].iter());
                    }
                }
                a.push_str(r);
            }
            _ => {
                // text over R's own alphabet, then R
                let chars: Vec<char> = r.chars().collect();
                for _ in 0..rng.small(1, 5) {
                    a.push(*rng.pick(&chars));
                }
                if rng.chance(2, 3) {
                    a.push_str(r);
                }
            }
        }
    }
    a
}

impl Property for C20 {
    const ID: &'static str = "C20";
    type Sc = XargsScenario;

    fn generate(rng: &mut Rng, _tier: Tier) -> XargsScenario {
        if rng.chance(1, 2500) {
            // 65535 and more input lines: the 65536th gets its run like the first
            let count = *rng.pick(&[65_535usize, 65_536, 65_537, 65_540]);
            let mut input = Vec::with_capacity(count * 3);
            for i in 0..count {
                input.push(b'a' + (i % 26) as u8);
                input.push(b'0' + (i % 10) as u8);
                input.push(b'\n');
            }
            return XargsScenario {
                opts: vec![Opt::ReplI("{}".into())],
                cmd: vec!["CMD".into(), "x{}".into()],
                input: B(input),
                read_plan: vec![],
                outcomes: vec![],
                rlimit_stack: None,
                env: None,
                real: None,
                note: "replace-mode sixteen-bit-counts".into(),
                decoy_in_cwd: false,
                echo_mode: false,
                extra: Default::default(),
            };
        }
        let mut sc = XargsScenario {
            opts: vec![],
            cmd: vec!["CMD".into()],
            input: B(vec![]),
            read_plan: vec![],
            outcomes: vec![],
            rlimit_stack: None,
            env: None,
            real: None,
            note: String::new(),
            decoy_in_cwd: false,
            echo_mode: false,
            extra: Default::default(),
        };
        let (ropt, r): (Opt, String) = match rng.weighted(&[6, 2, 1, 2]) {
            0 => {
                let r = rng.pick(REPLS).to_string();
                (Opt::ReplI(r.clone()), r)
            }
            1 => (Opt::ReplShort, "{}".to_string()),
            2 => (Opt::ReplLong(None), "{}".to_string()),
            _ => {
                let r = rng.pick(REPLS).to_string();
                (Opt::ReplLong(Some(r.clone())), r)
            }
        };
        for _ in 0..rng.small(0, 5) {
            if rng.chance(1, 4) {
                // an initial argument without R is passed unchanged
                sc.cmd.push(rng.pick(&["-v", "plain", "x y", "--opt=1"]).to_string());
            } else {
                sc.cmd.push(gen_initial(rng, &r));
            }
        }
        // option order: the option given last decides the mode
        sc.opts.push(ropt);
        match rng.weighted(&[55, 15, 10, 10, 10]) {
            0 => {}
            1 => {
                // -I with -n 1 is not a conflict, in either order
                let at = rng.usize_below(2);
                sc.opts.insert(at, Opt::N(1));
            }
            2 => {
                let at = rng.usize_below(2);
                sc.opts.insert(at, Opt::N(*rng.pick(&[2, 3])));
            }
            3 => {
                let at = rng.usize_below(2);
                sc.opts.insert(at, Opt::L(*rng.pick(&[1, 2])));
            }
            _ => {
                let mut extra = vec![Opt::N(*rng.pick(&[1, 2])), Opt::L(*rng.pick(&[1, 2]))];
                rng.shuffle(&mut extra);
                for o in extra {
                    let at = rng.usize_below(sc.opts.len() + 1);
                    sc.opts.insert(at, o);
                }
            }
        }
        if rng.chance(1, 4) {
            let at = rng.usize_below(sc.opts.len() + 1);
            sc.opts.insert(at, Opt::R);
        }
        // -0 / -d C together with the replace option: items end at that byte instead
        let sep: u8 = if rng.chance(1, 8) {
            let (o, b) = match rng.below(3) {
                0 => (Opt::Null, 0u8),
                1 => (Opt::Delim(",".into()), b','),
                _ => (Opt::Delim("\\n".into()), b'\n'),
            };
            let at = rng.usize_below(sc.opts.len() + 1);
            sc.opts.insert(at, o);
            b
        } else {
            b'\n'
        };
        // input lines
        let nlines = if rng.chance(1, 8) { 0 } else { rng.small(1, 8) };
        // now and then a line that makes one argument just under the largest single string
        // the kernel takes (131072 bytes with its terminator): it fits, so the command runs
        let near_strlen = if nlines > 0 && rng.chance(1, 60) { Some(rng.usize_below(nlines)) } else { None };
        if near_strlen.is_some() {
            let wrap = *rng.pick(&["", "", "[]", "pre-"]);
            sc.cmd.truncate(1);
            if rng.chance(1, 2) {
                sc.cmd.push("first".into());
            }
            sc.cmd.push(match wrap {
                "[]" => format!("[{r}]"),
                w => format!("{w}{r}"),
            });
        }
        let mut input = Vec::new();
        for i in 0..nlines {
            if rng.chance(1, 8) {
                input.push(sep); // empty line
            }
            if near_strlen == Some(i) {
                let around = sc.cmd.last().map(|a| a.len() - r.len()).unwrap_or(0);
                let short = *rng.pick(&[1usize, 1, 2, 3, 5, 8, 9, 12, 200]);
                input.extend(std::iter::repeat(b'L').take(131072 - short - around));
                if i + 1 < nlines || rng.chance(3, 4) {
                    input.push(sep);
                }
                continue;
            }
            input.extend_from_slice(&gen_line(rng, &r));
            if i + 1 < nlines || rng.chance(3, 4) {
                input.push(sep);
            }
        }
        if nlines == 0 && rng.chance(1, 3) {
            input.extend_from_slice(&[sep, sep]); // only empty lines
        }
        if rng.chance(1, 40) && !input.is_empty() && sep != 0xef && near_strlen.is_none() {
            // a byte-order mark at the very start: part of the first line like any other text
            input.splice(0..0, b"\xef\xbb\xbf".iter().copied());
        }
        sc.input = B(input.clone());
        let planned = nlines + 1;
        sc.outcomes = if rng.chance(1, 2) {
            gen_outcomes(rng, planned, true)
        } else {
            vec![]
        };
        let mut cfg = resolve(&sc.opts);
        // now and then a line that cannot be passed at all arrives behind ordinary lines (see
        // below); half of the time it is -s that it breaks
        let occ_r: usize = sc.cmd[1..].iter().map(|a| a.matches(r.as_str()).count()).sum();
        let unpassable = matches!(cfg.mode, Mode::Replace(_)) && occ_r >= 1 && nlines >= 1 && near_strlen.is_none() && rng.chance(1, 10);
        let unpassable_by_s = unpassable && rng.chance(4, 5);
        if let (Mode::Replace(r), true) = (&cfg.mode, unpassable_by_s || rng.chance(1, 6)) {
            // -s that every line just fits: both the line next to the unsubstituted command
            // and the command line after substitution stay within it, by 0..5 bytes
            let spec = tokenize(&cfg, &input);
            let template: usize = sc.cmd.iter().map(|a| a.len() + 1).sum();
            let mut need = template;
            for t in &spec.toks {
                let substituted: usize = sc.cmd[..1].iter().map(|a| a.len() + 1).sum::<usize>()
                    + sc.cmd[1..].iter().map(|a| a.len() + a.matches(r.as_str()).count() * t.bytes.len() - a.matches(r.as_str()).count() * r.len() + 1).sum::<usize>();
                need = need.max(template + t.bytes.len() + 1).max(substituted);
            }
            let at = rng.usize_below(sc.opts.len() + 1);
            sc.opts.insert(at, Opt::S(need + *rng.pick(&[0usize, 0, 1, 2, 5])));
            cfg = resolve(&sc.opts);
        }
        if unpassable {
            // a line that fits neither next to the command nor after substitution (or is longer
            // than the kernel takes as one argument), behind at least one complete line: the
            // lines before it have had their runs, then the run ends with xargs' own error
            let len = match sc.opts.iter().find_map(|o| if let Opt::S(s) = o { Some(*s) } else { None }) {
                Some(s) => s + rng.small(1, 20),
                None => crate::xargs::MAX_ARG_STRLEN + *rng.pick(&[0usize, 1, 5]),
            };
            let mut input = sc.input.0.clone();
            if input.last().is_some_and(|b| *b != sep) {
                input.push(sep);
            }
            input.extend(std::iter::repeat(b'Z').take(len));
            if rng.chance(2, 3) {
                input.push(sep);
                if rng.chance(1, 2) {
                    input.extend_from_slice(b"t");
                    input.push(sep);
                }
            }
            sc.input = B(input);
        }
        sc.note = match cfg.mode {
            Mode::Replace(_) if unpassable => "replace-mode unpassable-line".into(),
            Mode::Replace(_) => "replace-mode".into(),
            Mode::Batch => "batch-mode-wins".into(),
        };
        if r == "{}" && !sc.opts.iter().any(|o| matches!(o, Opt::S(_))) && rng.chance(1, 25) {
            // real children (the log and script paths contain no "{}")
            sc.real = Some(crate::xargs::RealKind::Simchild);
            sc.cmd[0] = "@REAL".into();
            sc.outcomes.retain(|o| matches!(o, crate::world::Outcome::Exit(_) | crate::world::Outcome::Signal(..)));
            sc.note.push_str(" real-simchild");
        }
        let sep = match cfg.delim {
            Some(d) => vec![d],
            None => vec![b' ', b'\n', b'\t'],
        };
        sc.read_plan = gen_any_plan(rng, &sc.input.0.clone(), cfg.delim.is_none(), &sep);
        if sc.input.0.len() > 60_000 {
            // the long-argument family is about sizes, not about chunking
            sc.read_plan.truncate(400);
        }
        add_neutral_xargs_opts(rng, &mut sc.opts);
        add_ambient_xargs(rng, &mut sc);
        sc
    }

    fn budget(tier: Tier) -> u64 {
        match tier {
            Tier::Quick => 500_000,
            Tier::Thorough => 10_000_000,
        }
    }

    fn check(sc: &XargsScenario, ctx: &mut Ctx, rep: &mut Report) {
        let cfg = resolve(&sc.opts);
        let spec = tokenize(&cfg, &sc.input.0);
        let obs = run_xargs(sc, ctx);
        rep.executions += 1;
        let exp = expect_with(sc, &obs.cmd, &cfg, &spec);
        let sep = match cfg.delim {
            Some(d) => vec![d],
            None => vec![b' ', b'\n', b'\t'],
        };
        let states = if cfg.delim.is_none() {
            Some(default_states(&sc.input.0))
        } else {
            None
        };
        account_reads(&obs.log, &sc.input.0, states.as_deref(), &sep, rep);
        trace_status(&obs, rep);
        match &cfg.mode {
            Mode::Replace(r) => {
                rep.probe("replace_mode");
                if spec.toks.is_empty() {
                    rep.probe("replace_mode_empty_input");
                }
                let occ: usize = sc.cmd[1..].iter().map(|a| a.matches(r.as_str()).count()).sum();
                if occ == 0 {
                    rep.probe("no_occurrence_of_R_in_initial_arguments");
                }
                if sc.cmd[1..].iter().any(|a| a.matches(r.as_str()).count() > 1) {
                    rep.probe("several_occurrences_in_one_argument");
                }
                if spec.toks.iter().any(|t| t.bytes.windows(r.len().max(1)).any(|w| w == r.as_bytes())) {
                    rep.probe("line_contains_R");
                }
                if spec.toks.iter().any(|t| t.bytes.contains(&b' ') || t.bytes.contains(&b'\t')) {
                    rep.probe("line_with_inner_blanks");
                }
                if sc.opts.iter().any(|o| matches!(o, Opt::N(_) | Opt::L(_))) {
                    rep.probe("replace_wins_over_n_or_L");
                }
                if sc.opts.iter().any(|o| matches!(o, Opt::S(_))) {
                    rep.probe("replace_mode_with_max_chars_that_just_fits");
                }
                if exp.own_error == Some("argument-too-large") {
                    rep.probe(if exp.spawns.is_empty() { "replace_mode_unpassable_line_first" } else { "replace_mode_unpassable_line_behind_ordinary_lines" });
                }
                if sc.opts.iter().any(|o| matches!(o, Opt::Null | Opt::Delim(_))) {
                    rep.probe("replace_mode_with_an_explicit_delimiter");
                }
            }
            Mode::Batch => rep.probe("n_or_L_given_last_wins_over_replace"),
        }
        let judge = Judge {
            prefix: "C20",
            sc,
            cfg: &cfg,
            spec: &spec,
            exp: &exp,
            tight_system: false,
            arg_max: 0,
            env_bytes: 0,
            env_count: 0,
        };
        judge.judge(&obs, rep);
        if sc.real.is_some() {
            rep.probe("real_child_processes");
            if rep.violation.is_none() {
                judge.judge_child_log(&obs, rep);
            }
        }
        if rep.want_sample {
            rep.sample = Some(json!({
                "scenario": sc,
                "argv": sc.argv(),
                "expected": {"invocations": exp.spawns.iter().map(|a| a.iter().map(|x| crate::sys::show(x)).collect::<Vec<_>>()).collect::<Vec<_>>(), "exit": exp.exit},
                "observed": {"status": obs.status, "invocations": obs.spawn_argvs().iter().map(|a| a.iter().map(|x| crate::sys::show(x)).collect::<Vec<_>>()).collect::<Vec<_>>(),
                             "stderr": crate::sys::lossy(&obs.stderr)},
            }));
        }
    }

    fn shrink(sc: &XargsScenario) -> Vec<XargsScenario> {
        shrink_xargs(sc)
    }

    fn crosscheck(sc: &XargsScenario, ctx: &mut Ctx, bins: &std::path::Path) -> crate::crosscheck::Xc {
        crate::crosscheck::xargs(sc, &sc.read_plan, ctx, bins)
    }

    fn rule() -> &'static str {
        "one evaluation = one seeded scenario (replace option flavour -I R / -i / --replace[=R] with R from a pool incl. multi-byte and self-overlapping strings, initial arguments with 0/1/many/adjacent occurrences of R, input lines with inner blanks, empty lines, lines containing R, missing final newline, empty input; every order of -I/-n/-L; read plan; child-outcome script) run through xargs_main and compared with the reference (one run per non-empty line, whole line substituted everywhere, nothing appended, last option decides); also -s that every line fits by 0-5 bytes, and a 1/25 slice with real children (no access to xargs' own input stream); 1/60 of the runs have a line that makes one argument 1-200 bytes short of the kernel's 128 KiB single-string limit; a tenth of the replace-mode runs append a line that cannot be passed at all (-s + 1..20 bytes, or 131072/131073/131077 bytes) behind ordinary lines: every earlier line has its run, then xargs' own error, status 1, nothing after; environment variables nobody should listen to in an eighth of the runs; a slice of the scenarios also goes through the real xargs executable (standard input a pipe, a regular file, a regular file read from an offset: a difference is a violation); distinct = distinct abstract trace; non-trivial = a fault fired or a mode/shape probe hit"
    }

    fn components() -> Value {
        json!({
            "real": ["clap parsing incl. -i/--replace optional values", "normalize_options (mode and delimiter choice)", "ByteDelimitedArgumentReader / WhitespaceDelimitedArgumentReader", "limiter chain", "process_input", "CommandBuilder::execute substitution"],
            "stub": ["stdin (SimStream)", "fork/exec/wait (fabricated outcomes)"]
        })
    }

    fn assumptions() -> Vec<&'static str> {
        vec![
            "lines are free of quotes, backslashes, leading and trailing blanks and are valid UTF-8, as the statement stipulates; R never occurs in the command name",
            "at most one replace option and one each of -n/-L per command line (clap rejects repeated options)",
        ]
    }
}
