//! C08 — find -exec ... {} + and -execdir ... {} +.

use serde::{Deserialize, Serialize};
use serde_json::{json, Value};

use crate::ctx::{Ctx, RunStatus};
use crate::fgen::*;
use crate::find::{account_find, run_find_prebuilt, FindScenario};
use crate::prop::{Property, Report, Tier};
use crate::props::c06::{kernel_budget, kernel_cost};
use crate::props::c09::{rel_dir, split_for_execdir_bytes};
use crate::rng::Rng;
use crate::tree;
use crate::world::{Event, Outcome};
use crate::xgen::gen_outcomes;

#[derive(Clone, Copy, Debug, PartialEq, Eq, Serialize, Deserialize)]
pub enum Place {
    Plain,
    Parens,
    /// ( ! ( A ) -o MARK )
    Negated,
    /// ( A -o -false )
    OrLeft,
    /// ( -false -o A )
    OrRight,
    /// ( -false , A )
    Comma,
}

#[derive(Clone, Debug, Serialize, Deserialize)]
pub struct Sc {
    pub find: FindScenario,
    pub starts: Vec<String>,
    pub sorted: bool,
    pub depth: bool,
    pub tests: Vec<String>,
    /// -mindepth / -maxdepth (the per-directory flush of -execdir must not depend on which
    /// entries the depth filter lets through)
    #[serde(default)]
    pub mindepth: Option<usize>,
    #[serde(default)]
    pub maxdepth: Option<usize>,
    pub execdir: bool,
    pub fixed: Vec<String>,
    pub place: Place,
    /// `-name QN -quit` appended to the expression
    pub quit_name: Option<String>,
    /// a second `{} +` action right after the first (is it -execdir?): it is reached for the
    /// same paths, and a success of one must not hide a failure of the other
    #[serde(default)]
    pub second: Option<bool>,
}

const CMD: &str = "CMD";
const CMD2: &str = "CMD2";
const OK: &[u8] = b"\x01OK";

impl Sc {
    fn render(&mut self) {
        let mut a = self.starts.clone();
        if self.sorted {
            a.push("-sorted".into());
        }
        if self.depth {
            a.push("-depth".into());
        }
        if let Some(m) = self.mindepth {
            a.push("-mindepth".into());
            a.push(m.to_string());
        }
        if let Some(m) = self.maxdepth {
            a.push("-maxdepth".into());
            a.push(m.to_string());
        }
        a.extend(self.tests.iter().cloned());
        let mut action: Vec<String> = vec!["-print0".into()];
        action.push(if self.execdir { "-execdir".into() } else { "-exec".into() });
        action.push(CMD.into());
        action.extend(self.fixed.iter().cloned());
        action.push("{}".into());
        action.push("+".into());
        if let Some(d2) = self.second {
            action.push(if d2 { "-execdir".into() } else { "-exec".into() });
            action.push(CMD2.into());
            action.push("{}".into());
            action.push("+".into());
        }
        let mark: Vec<String> = vec!["-printf".into(), "\\001OK\\0".into()];
        let s = |x: &str| x.to_string();
        match self.place {
            Place::Plain => {
                a.extend(action);
                a.extend(mark);
            }
            Place::Parens => {
                a.push(s("("));
                a.extend(action);
                a.push(s(")"));
                a.extend(mark);
            }
            Place::Negated => {
                a.push(s("("));
                a.push(s("!"));
                a.push(s("("));
                a.extend(action);
                a.push(s(")"));
                a.push(s("-o"));
                a.extend(mark);
                a.push(s(")"));
            }
            Place::OrLeft => {
                a.push(s("("));
                a.extend(action);
                a.push(s("-o"));
                a.push(s("-false"));
                a.push(s(")"));
                a.extend(mark);
            }
            Place::OrRight => {
                a.push(s("("));
                a.push(s("-false"));
                a.push(s("-o"));
                a.extend(action);
                a.push(s(")"));
                a.extend(mark);
            }
            Place::Comma => {
                a.push(s("("));
                a.push(s("-false"));
                a.push(s(","));
                a.extend(action);
                a.push(s(")"));
                a.extend(mark);
            }
        }
        if let Some(q) = &self.quit_name {
            a.push(s("-name"));
            a.push(q.clone());
            a.push(s("-quit"));
        }
        self.find.argv = a;
        self.find.record_delim = 0;
    }
}

pub struct C08;

/// One directory with 65535-131072 short-named files, all reaching the action: the invocation
/// pending at the end holds tens of thousands of paths (65536 of them, in one case).
fn gen_many_paths(rng: &mut Rng) -> Sc {
    let mut spec = tree::TreeSpec::default();
    spec.nodes.push(tree::Node::Dir { path: "t".into() });
    spec.nodes.push(tree::Node::Dir { path: "t/b".into() });
    spec.bulk.push(tree::Bulk { dir: "t/b".into(), count: *rng.pick(&[65_535usize, 65_536, 65_536, 65_537, 131_072]), kind: tree::BulkKind::File });
    let find = FindScenario::new(spec, vec![]);
    let mut sc = Sc {
        find,
        starts: vec![rng.pick(&["t", "t/b"]).to_string()],
        sorted: rng.chance(1, 2),
        depth: false,
        tests: vec!["-type".into(), "f".into()],
        mindepth: None,
        maxdepth: None,
        execdir: rng.chance(1, 2),
        fixed: if rng.chance(1, 2) { vec!["-a".into()] } else { vec![] },
        place: Place::Plain,
        quit_name: None,
        second: None,
    };
    sc.render();
    sc
}

impl Property for C08 {
    const ID: &'static str = "C08";
    type Sc = Sc;

    fn generate(rng: &mut Rng, _tier: Tier) -> Sc {
        if rng.chance(1, 2500) {
            return gen_many_paths(rng);
        }
        let tight = rng.chance(2, 5);
        let nroots = rng.small(1, 3);
        let roots: Vec<String> = ["t", "u", "v"][..nroots].iter().map(|s| s.to_string()).collect();
        let cfg = TreeCfg {
            roots: roots.clone(),
            max_entries: if tight { *rng.pick(&[10, 25, 40, 60]) } else { *rng.pick(&[0, 3, 8, 15, 30]) },
            max_depth: rng.urange(1, 5),
            names: if tight {
                NameStyle::Long
            } else if rng.chance(1, 3) {
                NameStyle::Hostile
            } else {
                NameStyle::Simple
            },
            link_weight: 5,
            allow_loops: false,
            outside: false,
            fifo: false,
            raw_byte: if !tight && rng.chance(1, 4) { Some(*rng.pick(&[0xffu8, 0xe9, 0xc3, 0x80])) } else { None },
        };
        let mut spec = gen_tree(rng, &cfg);
        if tight && rng.chance(1, 3) {
            // many long names in one directory below the top: a single directory needs several
            // batches (-execdir dispatches a full batch from inside that directory)
            let deep: Vec<String> = dirs_of(&spec).into_iter().filter(|d| d.contains('/') && d.len() < 600).collect();
            if !deep.is_empty() {
                let d = rng.pick(&deep).clone();
                let n = rng.urange(30, 90);
                for i in 0..n {
                    let pad = rng.urange(150, 240);
                    spec.nodes.push(tree::Node::File {
                        path: format!("{d}/zz{i:03}_{}", "y".repeat(pad)),
                        size: 0,
                        token: 0,
                        atime_ns: None,
                        mtime_ns: None,
                    });
                }
            }
        }
        let mut starts: Vec<String> = roots
            .iter()
            .map(|r| match rng.weighted(&[6, 2, 2]) {
                0 => r.clone(),
                1 => format!("./{r}"),
                _ => format!("{r}/"),
            })
            .collect();
        if rng.chance(1, 8) {
            starts.push(starts[0].clone());
        }
        if rng.chance(1, 5) {
            // a starting point with directory components (the -execdir batch of a depth-0
            // entry runs in its parent)
            let deep: Vec<&tree::Node> = spec.nodes.iter().filter(|n| n.path().contains('/') && !n.path().contains(tree::RAW_SENTINEL) && n.path().len() < 1000).collect();
            if !deep.is_empty() {
                let n = *rng.pick(&deep);
                let p = n.path().to_string();
                let is_dir = matches!(n, tree::Node::Dir { .. });
                let st = match rng.weighted(&[4, 2, if is_dir { 2 } else { 0 }]) {
                    0 => p,
                    1 => format!("./{p}"),
                    // spelled through `..`: names the parent of p; its own basename is `..`
                    _ => format!("{p}/.."),
                };
                if rng.chance(1, 2) {
                    starts = vec![st];
                } else {
                    starts.push(st);
                }
            }
        }
        let fixed: Vec<String> = (0..rng.small(0, 3))
            .map(|_| rng.pick(&["-a", "fixed arg", "--", "x", "{}x", "+", ";;"]).to_string())
            .collect();
        let names: Vec<String> = spec
            .nodes
            .iter()
            .filter_map(|n| n.path().rsplit_once('/').map(|(_, b)| b.to_string()))
            .collect();
        let quit_name = if rng.chance(1, 5) && !names.is_empty() {
            let n = rng.pick(&names).clone();
            // -name takes a pattern: keep to names free of glob characters
            if n.chars().all(|c| c.is_ascii_alphanumeric() || c == '_' || c == '.') {
                Some(n)
            } else {
                None
            }
        } else {
            None
        };
        let mut find = FindScenario::new(spec, vec![]);
        find.gen_extras(rng, true);
        find.starts_via_file = rng.chance(1, 10);
        let nout = rng.urange(1, 12);
        find.outcomes = if rng.chance(1, 2) { gen_outcomes(rng, nout, true) } else { vec![] };
        if find.ambient.stdout_closed_pipe && rng.chance(2, 3) {
            // the child that wrote to the same pipe dies of SIGPIPE: a failed invocation
            let at = rng.usize_below(find.outcomes.len() + 1).min(3);
            while find.outcomes.len() <= at {
                find.outcomes.push(Outcome::Exit(0));
            }
            find.outcomes[at] = Outcome::Signal(libc::SIGPIPE, false);
        }
        if tight {
            // ARG_MAX at the kernel's 128 KiB floor and an environment that
            // leaves argmax only 6..30 KB: even small trees need several batches
            find.rlimit_stack = Some(512 * 1024);
            let avail = rng.urange(6_000, 30_000);
            let pad = 131072usize - 4096 - 2048 - 200 - avail;
            let nvars = *rng.pick(&[1usize, 1, 3, 30]);
            let mut env = vec![];
            for i in 0..nvars {
                let key = format!("P{i}");
                let vlen = (pad / nvars).saturating_sub(key.len() + 2 + 8);
                env.push((key, "e".repeat(vlen)));
            }
            find.env = Some(env);
            find.note = "tight-budget".into();
        }
        // now and then the children are real processes, and find's working directory is so
        // deep that its absolute path does not fit PATH_MAX (relative names keep working)
        let real = !tight && rng.chance(1, 25);
        let long_cwd = if real && rng.chance(2, 3) { Some(*rng.pick(&[2000usize, 3900, 4090, 4100, 4600, 6000])) } else { None };
        if real {
            find.real_children = true;
            find.long_cwd = long_cwd;
            find.starts_via_file = false;
            find.outcomes.retain(|o| matches!(o, Outcome::Exit(_) | Outcome::Signal(..)));
            find.ambient.stdout_tty = false;
            find.ambient.stdout_closed_pipe = false;
        }
        let mut sc = Sc {
            find,
            starts,
            sorted: rng.chance(2, 3),
            depth: rng.chance(1, 4),
            tests: gen_stable_tests(rng),
            mindepth: if rng.chance(1, 4) { Some(rng.urange(0, 3)) } else { None },
            maxdepth: if rng.chance(1, 6) { Some(rng.urange(0, 4)) } else { None },
            execdir: rng.chance(2, 5),
            fixed,
            place: *rng.pick(&[Place::Plain, Place::Plain, Place::Parens, Place::Negated, Place::OrLeft, Place::OrRight, Place::Comma]),
            quit_name,
            second: if rng.chance(1, 5) && !real { Some(rng.chance(1, 2)) } else { None },
        };
        sc.render();
        sc
    }

    fn budget(tier: Tier) -> u64 {
        match tier {
            Tier::Quick => 120_000,
            Tier::Thorough => 2_500_000,
        }
    }

    fn check(sc: &Sc, ctx: &mut Ctx, rep: &mut Report) {
        let root = match crate::find::place_tree(&sc.find, ctx) {
            Ok(r) => r,
            Err(e) => {
                rep.fail("C08.HARNESS-tree-build", e);
                return;
            }
        };
        if let Some(len) = sc.find.long_cwd {
            rep.probe(if len + 300 > 4096 { "working_directory_path_beyond_path_max" } else { "working_directory_path_thousands_of_bytes" });
        }
        let obs = run_find_prebuilt(&sc.find, ctx, root);
        if sc.find.long_cwd.is_some() {
            crate::find::leave_long_cwd(ctx);
        }
        if sc.find.real_children {
            rep.probe("real_child_processes");
            if let Some((class, detail)) = crate::find::judge_real_children(&sc.find, &obs) {
                rep.fail(format!("C08.{class}"), detail);
                return;
            }
        }
        rep.executions += 1;
        account_find(&obs, rep);
        if sc.find.tree.bulk.iter().any(|b| b.count >= 65_535) {
            rep.probe("more_than_65535_paths_in_one_directory");
            rep.want_sample = false;
        }
        if sc.execdir {
            rep.probe("execdir");
        }
        if sc.execdir && sc.mindepth.is_some_and(|m| m >= 2) {
            rep.probe("execdir_with_mindepth_ge_2");
        }
        if sc.find.tree.raw_byte.is_some() && sc.find.tree.nodes.iter().any(|n| n.path().contains(tree::RAW_SENTINEL)) {
            rep.probe("file_name_not_valid_utf8");
        }
        if sc.find.env.is_some() {
            rep.probe("tight_argument_budget");
        }
        match sc.place {
            Place::Negated => rep.probe("action_under_not"),
            Place::OrLeft | Place::OrRight => rep.probe("action_inside_or"),
            Place::Comma => rep.probe("action_inside_list"),
            _ => {}
        }
        let describe = || {
            format!(
                "argv {:?} outcomes {:?} rlimit {:?} env {:?}",
                sc.find.argv.iter().map(|a| if a.len() > 40 { format!("{}…", &a[..a.char_indices().map(|(i, _)| i).take_while(|i| *i <= 40).last().unwrap_or(0)]) } else { a.clone() }).collect::<Vec<_>>(),
                &sc.find.outcomes[..sc.find.outcomes.len().min(8)],
                sc.find.rlimit_stack,
                sc.find.env.as_ref().map(|e| e.iter().map(|(k, v)| (k.clone(), v.len())).collect::<Vec<_>>())
            )
        };
        if let RunStatus::Panic(msg) = &obs.status {
            rep.fail("C08.panic", format!("{}: find panicked: {msg}", describe()));
            return;
        }
        if obs.log.budget_exhausted {
            rep.fail("C08.no-progress", format!("{}: step budget exhausted", describe()));
            return;
        }
        // interleaved history
        let mut markers: Vec<(usize, Vec<u8>)> = vec![]; // (event position, path)
        let mut oks = 0usize;
        let mut spawns: Vec<(usize, Vec<Vec<u8>>, Option<Vec<u8>>, Outcome)> = vec![];
        {
            let mut cur: Vec<u8> = vec![];
            let mut sink_pos = 0usize;
            let mut last_was_path = false;
            for (pos, ev) in obs.log.events.iter().enumerate() {
                match ev {
                    Event::Write { accepted: Some(n), .. } => {
                        for &b in &obs.log.sink[sink_pos..sink_pos + n] {
                            if b == 0 {
                                let r = std::mem::take(&mut cur);
                                if r.as_slice() == OK {
                                    oks += 1;
                                    last_was_path = false;
                                } else {
                                    if last_was_path {
                                        // the previous reached entry got no truth marker
                                        rep.fail(
                                            "C08.action-not-true",
                                            format!("{}: the action was not true for [{}]", describe(), crate::sys::show(&markers.last().unwrap().1)),
                                        );
                                        return;
                                    }
                                    markers.push((pos, tree::unlossy(sc.find.tree.raw_byte, &r)));
                                    last_was_path = true;
                                }
                            } else {
                                cur.push(b);
                            }
                        }
                        sink_pos += n;
                    }
                    Event::Spawn { argv, cwd, outcome, .. } => spawns.push((
                        pos,
                        argv.iter().map(|a| a.0.clone()).collect(),
                        cwd.as_ref().map(|c| c.0.clone()),
                        outcome.clone(),
                    )),
                    _ => {}
                }
            }
            if last_was_path {
                rep.fail("C08.action-not-true", format!("{}: the action was not true for the last reached entry [{}]", describe(), crate::sys::show(&markers.last().unwrap().1)));
                return;
            }
        }
        let _ = oks;
        if spawns.len() > 1 {
            rep.probe("several_invocations");
        }
        if sc.execdir {
            // two consecutive invocations from the same directory: the first was dispatched
            // because the batch was full
            let dirs: Vec<String> = spawns.iter().map(|(_, _, cwd, _)| cwd.as_ref().map(|c| rel_dir(c, &obs.root)).unwrap_or_default()).collect();
            if dirs.windows(2).any(|w| w[0] == w[1] && w[0].contains('/')) {
                rep.probe("execdir_batch_overflow_inside_a_directory_below_the_top");
            }
        }
        if sc.quit_name.is_some() {
            rep.probe("quit_in_expression");
        }
        // each `{} +` action of the expression is judged on its own invocations
        let mut actions: Vec<(&str, bool, Vec<String>)> = vec![(CMD, sc.execdir, sc.fixed.clone())];
        if let Some(d2) = sc.second {
            actions.push((CMD2, d2, vec![]));
            rep.probe("two_multi_exec_actions_in_one_expression");
        }
        for (a_name, a_execdir, a_fixed) in actions {
            let sp: Vec<&(usize, Vec<Vec<u8>>, Option<Vec<u8>>, Outcome)> = spawns.iter().filter(|s| s.1.first().map(|x| x.as_slice()) == Some(a_name.as_bytes())).collect();
            // every invocation: CMD, FIXED, then at least one path
            let nfix = 1 + a_fixed.len();
            let mut delivered: Vec<(usize, Vec<u8>, String)> = vec![]; // (spawn pos, path arg, dir)
            for (k, (pos, argv, cwd, _)) in sp.iter().enumerate() {
                let prefix_ok = argv.len() > nfix
                    && argv[0] == a_name.as_bytes()
                    && argv[1..nfix].iter().zip(&a_fixed).all(|(a, f)| a == f.as_bytes());
                if !prefix_ok {
                    rep.fail(
                        if argv.len() <= nfix { "C08.invocation-without-path" } else { "C08.fixed-arguments-changed" },
                        format!("{}: invocation #{k}: {:?}", describe(), argv.iter().take(8).map(|a| crate::sys::show(&a[..a.len().min(60)])).collect::<Vec<_>>()),
                    );
                    return;
                }
                let dir = cwd.as_ref().map(|c| rel_dir(c, &obs.root)).unwrap_or_default();
                // -exec + runs in find's own directory (an explicit `.` is the same place)
                if !a_execdir && cwd.is_some() && !dir.is_empty() {
                    rep.fail("C08.unexpected-cwd", format!("{}: -exec + ran in [{}]", describe(), dir));
                    return;
                }
                for a in &argv[nfix..] {
                    delivered.push((*pos, a.clone(), dir.clone()));
                }
                // acceptable to the operating system?
                let env: Vec<(String, String)> = std::env::vars().collect();
                let cost = kernel_cost(argv.iter().map(|a| a.len()), argv.len(), &env);
                let budget = kernel_budget(sc.find.rlimit_stack, ctx.default_stack);
                if cost * 10 > budget * 8 {
                    rep.probe("invocation_above_80_percent_of_kernel_budget");
                }
                if cost > budget || argv.iter().any(|a| a.len() + 1 > 131072) {
                    // confirm with the real kernel before reporting
                    let mut c = std::process::Command::new("/bin/true");
                    for a in &argv[1..] {
                        c.arg(<std::ffi::OsStr as std::os::unix::ffi::OsStrExt>::from_bytes(a));
                    }
                    match c.status() {
                        Err(e) if e.raw_os_error() == Some(libc::E2BIG) => {
                            rep.fail(
                                "C08.invocation-rejected-by-os",
                                format!("{}: invocation #{k} with {} arguments costs {cost} bytes, kernel budget {budget}: execve says E2BIG", describe(), argv.len()),
                            );
                            return;
                        }
                        _ => rep.probe("formula_predicted_rejection_kernel_accepted"),
                    }
                }
            }
            // each reached path to exactly one invocation, in visit order
            let want: Vec<(Vec<u8>, String)> = markers
                .iter()
                .map(|(_, p)| {
                    if a_execdir {
                        let (d, n) = split_for_execdir_bytes(p);
                        (n, d)
                    } else {
                        (p.clone(), String::new())
                    }
                })
                .collect();
            let got: Vec<(Vec<u8>, String)> = delivered.iter().map(|(_, a, d)| (a.clone(), d.clone())).collect();
            if got != want {
                let class = if got.len() < want.len() && want.starts_with(&got) {
                    if sc.quit_name.is_some() && obs.log.events.iter().any(|_| true) && markers.last().map(|m| String::from_utf8_lossy(&m.1).ends_with(sc.quit_name.as_deref().unwrap_or("\u{0}"))).unwrap_or(false) {
                        "C08.pending-batch-lost-at-quit"
                    } else {
                        "C08.pending-batch-never-run"
                    }
                } else if got.len() == want.len() && got.iter().map(|g| &g.0).eq(want.iter().map(|w| &w.0)) {
                    "C08.execdir-wrong-directory"
                } else if a_execdir && got.iter().map(|g| &g.0).eq(markers.iter().map(|m| &m.1)) {
                    "C08.execdir-path-not-dot-slash-basename"
                } else {
                    let mut a: Vec<&Vec<u8>> = got.iter().map(|g| &g.0).collect();
                    let mut b: Vec<&Vec<u8>> = want.iter().map(|g| &g.0).collect();
                    a.sort();
                    b.sort();
                    if a == b {
                        "C08.paths-out-of-order"
                    } else {
                        "C08.path-lost-or-duplicated"
                    }
                };
                let first = got.iter().zip(&want).position(|(a, b)| a != b).unwrap_or(got.len().min(want.len()));
                rep.fail(
                    class,
                    format!(
                        "{}: {} paths reached the action, {} were passed in {} invocation(s); first difference at #{first}: reached {:?}, passed {:?}",
                        describe(),
                        want.len(),
                        got.len(),
                        sp.len(),
                        want.get(first).map(|w| (crate::sys::show(&w.0[..w.0.len().min(80)]), w.1.clone())),
                        got.get(first).map(|w| (crate::sys::show(&w.0[..w.0.len().min(80)]), w.1.clone())),
                    ),
                );
                return;
            }
            // a path is passed only after it was reached
            for (j, (spos, _, _)) in delivered.iter().enumerate() {
                if markers[j].0 > *spos {
                    rep.fail("C08.passed-before-reached", format!("{}: path #{j} was passed before the action was reached on it", describe()));
                    return;
                }
            }
        }
        // exit status: non-zero iff some invocation failed or could not start
        let any_bad = spawns.iter().any(|(_, _, _, o)| !matches!(o, Outcome::Exit(0)));
        let nonzero = obs.status != RunStatus::Exit(0);
        if any_bad != nonzero {
            rep.fail(
                if any_bad { "C08.failure-not-reflected-in-exit-status" } else { "C08.spurious-failure-status" },
                format!("{}: invocations {:?}, find status {:?}, stderr {}", describe(), spawns.iter().map(|s| s.3.clone()).collect::<Vec<_>>(), obs.status, crate::sys::lossy(&obs.stderr[..obs.stderr.len().min(300)])),
            );
            return;
        }
        if rep.want_sample {
            rep.sample = Some(json!({
                "argv": sc.find.argv.iter().map(|a| if a.len() > 60 { format!("{}…({} bytes)", &a[..40.min(a.len())], a.len()) } else { a.clone() }).collect::<Vec<_>>(),
                "tree_nodes": sc.find.tree.nodes.len(),
                "outcomes": sc.find.outcomes,
                "rlimit_stack": sc.find.rlimit_stack,
                "env_bytes": sc.find.env.as_ref().map(|e| e.iter().map(|(k, v)| k.len() + v.len() + 2).sum::<usize>()),
                "reached": markers.len(),
                "invocations": spawns.iter().map(|(_, a, c, o)| json!({"command": crate::sys::show(&a[0]), "arguments": a.len(), "bytes": a.iter().map(|x| x.len() + 1).sum::<usize>(), "cwd": c.as_ref().map(|c| crate::sys::show(c)), "outcome": o})).collect::<Vec<_>>(),
                "status": obs.status,
            }));
        }
    }

    fn shrink(sc: &Sc) -> Vec<Sc> {
        let mut out = vec![];
        let mut push = |mut s: Sc| {
            s.render();
            out.push(s);
        };
        if sc.find.env.is_some() {
            let mut s = sc.clone();
            s.find.env = None;
            s.find.rlimit_stack = None;
            push(s);
        }
        if sc.starts.len() > 1 {
            for i in 0..sc.starts.len() {
                let mut s = sc.clone();
                s.starts.remove(i);
                push(s);
            }
        }
        if sc.place != Place::Plain {
            let mut s = sc.clone();
            s.place = Place::Plain;
            push(s);
        }
        if sc.quit_name.is_some() {
            let mut s = sc.clone();
            s.quit_name = None;
            push(s);
        }
        if sc.second.is_some() {
            let mut s = sc.clone();
            s.second = None;
            push(s);
        }
        if !sc.tests.is_empty() {
            let mut s = sc.clone();
            s.tests.clear();
            push(s);
        }
        if sc.depth {
            let mut s = sc.clone();
            s.depth = false;
            push(s);
        }
        if sc.mindepth.is_some() {
            let mut s = sc.clone();
            s.mindepth = None;
            push(s);
        }
        if sc.maxdepth.is_some() {
            let mut s = sc.clone();
            s.maxdepth = None;
            push(s);
        }
        for i in 0..sc.fixed.len() {
            let mut s = sc.clone();
            s.fixed.remove(i);
            push(s);
        }
        if !sc.find.outcomes.is_empty() {
            let mut s = sc.clone();
            s.find.outcomes.clear();
            push(s);
            for i in 0..sc.find.outcomes.len() {
                if sc.find.outcomes[i] != Outcome::Exit(0) {
                    let mut s = sc.clone();
                    s.find.outcomes[i] = Outcome::Exit(0);
                    push(s);
                }
            }
        }
        let mut protect: Vec<String> = sc.starts.iter().map(|s| s.trim_start_matches("./").trim_end_matches('/').to_string()).collect();
        if let Some(q) = &sc.quit_name {
            for n in &sc.find.tree.nodes {
                if n.path().ends_with(&format!("/{q}")) {
                    protect.push(n.path().to_string());
                }
            }
        }
        for t in shrink_tree(&sc.find.tree, &protect) {
            let mut s = sc.clone();
            s.find.tree = t;
            push(s);
        }
        out
    }

    fn crosscheck(sc: &Sc, ctx: &mut Ctx, bins: &std::path::Path) -> crate::crosscheck::Xc {
        use crate::crosscheck::Xc;
        let first = crate::crosscheck::find(&sc.find, ctx, bins, CMD);
        if !matches!(first, Xc::Agree) {
            return first;
        }
        // once more with a reader of find's output that leaves after the first invocation: an
        // invocation that failed still makes the exit status non-zero, however find ends
        if sc.find.outcomes.iter().take(2).any(|o| !matches!(o, Outcome::Exit(0))) {
            match crate::crosscheck::find_real_reader_leaves(&sc.find, ctx, bins, CMD) {
                Ok(Some((status, failed))) if failed > 0 && status == RunStatus::Exit(0) => {
                    return Xc::Differs(format!(
                        "find {:?}: {failed} invocation(s) failed, then the reader of find's standard output went away, and find exited 0",
                        &sc.find.argv[..sc.find.argv.len().min(14)]
                    ));
                }
                Ok(_) => {}
                Err(e) => return Xc::Disagree(e),
            }
        }
        Xc::Agree
    }

    fn rule() -> &'static str {
        "one evaluation = one seeded scenario: a real tree (up to 60 entries; in 40% of the runs names of 50-240 bytes so that paths reach kilobytes) under 1-3 starting points, `TESTS -print0 -exec|-execdir CMD FIXED {} + MARK` with the action placed plainly, in parentheses, under `!`, on either side of `-o`, inside a `,` list, optionally followed by `-name X -quit`, -depth on/off; faults: any subset of invocations failing (exit != 0, signal, spawn error), and knobs that shrink the argument budget for real (RLIMIT_STACK 512 KiB plus 95-120 KB of environment leave argmax 6-30 KB, so small trees need 2-8 batches); oracle over the interleaved history of output records and spawns: the paths passed, concatenated over all invocations, equal the sequence that reached the action (per directory and as ./basename with the right cwd for -execdir), each passed after it was reached, none pending at exit, fixed arguments intact, at least one path per invocation, every invocation within the kernel's budget (formula, confirmed by a real execve before reporting), truth marker after every reached entry, exit status non-zero iff some invocation failed; also -mindepth/-maxdepth, starting points with directory components, a crowded directory below the top, names that are not valid UTF-8; 1/25 of the runs have real child processes (their own log of arguments and working directory, by device and inode, must agree with the seam's record, and every invocation must start), two thirds of those from a working directory 2000-6000 bytes deep (beyond PATH_MAX); the process environment is a dimension too (variables nobody should listen to such as POSIXLY_CORRECT, TZ with daylight saving, LC_ALL, in a sixth of the runs; descriptor 1 a terminal in a tenth); a slice of the scenarios also goes through the real executables; distinct = distinct abstract trace; non-trivial = a failing invocation fired or a probe hit (several invocations, tight budget, action under !/-o/,, -quit, -execdir)"
    }

    fn components() -> Value {
        json!({
            "real": ["build_matcher_tree: '{} +' recognition", "MultiExecMatcher::matches / finished / finished_dir", "argmax::Command::try_arg with the real sysconf(_SC_ARG_MAX) and environment of the run", "And/Or/Not/List forwarding of finished and finished_dir", "process_dir / do_find flush points incl. -quit"],
            "stub": ["fork/exec/wait (fabricated outcomes, hook H3; real simchild processes in 1/25 of the runs and in the binary cross-check)", "stdout (SimSink)"]
        })
    }

    fn assumptions() -> Vec<&'static str> {
        vec![
            "which entries reach the action is observed through a -print0 marker immediately before it",
            "the fixed arguments are small, so that a single path always fits into an otherwise empty invocation",
            "Linux accounting of argv+envp (strings plus one pointer per entry against max(min(RLIMIT_STACK/4, 6 MiB), 128 KiB)) screens invocations; a predicted rejection is reported only if a real execve of the same argument strings fails with E2BIG",
        ]
    }
}
