//! C02 — find traversal: every in-range entry visited exactly once under -P/-H/-L.

use std::collections::BTreeMap;

use serde::{Deserialize, Serialize};
use serde_json::{json, Value};

use crate::ctx::{Ctx, RunStatus};
use crate::fgen::*;
use crate::find::{account_find, run_find_prebuilt, FindScenario, MutOp, Mutation, When};
use crate::prop::{Property, Report, Tier};
use crate::rng::Rng;
use crate::tree::{self, FollowMode, Node, RefWalk, WalkCfg};
use crate::world::WriteOp;

#[derive(Clone, Debug, Serialize, Deserialize)]
pub struct Sc {
    pub find: FindScenario,
    pub follow_flag: Option<String>,
    pub follow_in_expr: bool,
    pub starts: Vec<String>,
    pub mindepth: Option<usize>,
    pub maxdepth: Option<usize>,
    pub depth: bool,
    pub sorted: bool,
    /// the same option given earlier on the command line with another value: the one given
    /// last applies (rendered only in front of a real bound)
    #[serde(default)]
    pub earlier_mindepth: Option<usize>,
    #[serde(default)]
    pub earlier_maxdepth: Option<usize>,
    /// a directory with exactly this many unreadable directories in it (`TreeSpec::bulk`)
    #[serde(default)]
    pub note: String,
}

impl Sc {
    fn follow(&self) -> FollowMode {
        if self.follow_in_expr {
            return FollowMode::L;
        }
        match self.follow_flag.as_deref() {
            Some("-H") => FollowMode::H,
            Some("-L") => FollowMode::L,
            _ => FollowMode::P,
        }
    }

    fn render(&mut self) {
        let mut a = vec![];
        if let Some(f) = &self.follow_flag {
            a.push(f.clone());
        }
        a.extend(self.starts.iter().cloned());
        if let (Some(e), Some(_)) = (self.earlier_mindepth, self.mindepth) {
            a.push("-mindepth".into());
            a.push(e.to_string());
        }
        if let (Some(e), Some(_)) = (self.earlier_maxdepth, self.maxdepth) {
            a.push("-maxdepth".into());
            a.push(e.to_string());
        }
        if let Some(m) = self.mindepth {
            a.push("-mindepth".into());
            a.push(m.to_string());
        }
        if let Some(m) = self.maxdepth {
            a.push("-maxdepth".into());
            a.push(m.to_string());
        }
        if self.depth {
            a.push("-depth".into());
        }
        if self.sorted {
            a.push("-sorted".into());
        }
        if self.follow_in_expr {
            a.push("-follow".into());
        }
        a.push("-print0".into());
        self.find.argv = a;
    }
}

pub struct C02;

/// The recorded walkdir defect: under -H, with -depth, a starting point that
/// is a symbolic link to a directory is yielded at once instead of being
/// deferred, which shifts walkdir's deferred-directory stack by one; a real
/// directory at depth == mindepth below such a starting point is then judged
/// one level too shallow and dropped.
fn h_symlink_root_depth_bug(sc: &Sc, root: &std::path::Path, missing: &str, mindepth: usize) -> bool {
    if sc.follow() != FollowMode::H || !sc.depth || mindepth == 0 {
        return false;
    }
    for s in &sc.starts {
        let is_link_to_dir = std::fs::symlink_metadata(root.join(s)).map(|m| m.file_type().is_symlink()).unwrap_or(false)
            && std::fs::metadata(root.join(s)).map(|m| m.is_dir()).unwrap_or(false);
        if !is_link_to_dir {
            continue;
        }
        let base = s.trim_end_matches('/');
        if let Some(rest) = missing.strip_prefix(&format!("{base}/")) {
            let depth = rest.matches('/').count() + 1;
            let is_real_dir = std::fs::symlink_metadata(root.join(missing)).map(|m| m.is_dir()).unwrap_or(false);
            if depth == mindepth && is_real_dir {
                return true;
            }
        }
    }
    false
}

impl Property for C02 {
    const ID: &'static str = "C02";
    type Sc = Sc;

    fn wants_unprivileged() -> bool {
        true
    }

    fn generate(rng: &mut Rng, _tier: Tier) -> Sc {
        if rng.chance(1, 3000) {
            // one directory with more than 65535 entries
            let mut spec = crate::tree::TreeSpec::default();
            for p in ["t", "t/big", "t/big/sub"] {
                spec.nodes.push(Node::Dir { path: p.into() });
            }
            spec.nodes.push(Node::File { path: "t/big/sub/zz".into(), size: 1, token: 1, atime_ns: None, mtime_ns: None });
            spec.bulk.push(crate::tree::Bulk { dir: "t/big".into(), count: *rng.pick(&[65_534usize, 65_535, 65_536, 70_000]), kind: crate::tree::BulkKind::File });
            let find = FindScenario::new(spec, vec![]);
            let mut sc = Sc {
                find,
                follow_flag: rng.pick(&[None, None, Some("-L".to_string())]).clone(),
                follow_in_expr: false,
                starts: vec!["t".into()],
                mindepth: None,
                maxdepth: None,
                depth: rng.chance(1, 3),
                sorted: rng.chance(1, 2),
                earlier_mindepth: None,
                earlier_maxdepth: None,
                note: "huge directory".into(),
            };
            sc.render();
            return sc;
        }
        if rng.chance(1, 80) {
            // exactly 255, 256, 257 or 512 entries of one starting point cannot be read (and
            // nothing else fails): every one is diagnosed, and the status is non-zero
            let under_l = rng.chance(1, 2);
            let mut spec = crate::tree::TreeSpec::default();
            for p in ["t", "t/many", "t/ok", "u"] {
                spec.nodes.push(Node::Dir { path: p.into() });
            }
            spec.nodes.push(Node::File { path: "t/ok/f".into(), size: 1, token: 1, atime_ns: None, mtime_ns: None });
            spec.nodes.push(Node::File { path: "u/g".into(), size: 1, token: 2, atime_ns: None, mtime_ns: None });
            spec.bulk.push(crate::tree::Bulk {
                dir: "t/many".into(),
                count: *rng.pick(&[255usize, 256, 256, 257, 512]),
                kind: if under_l { crate::tree::BulkKind::SelfLink } else { crate::tree::BulkKind::Dir000 },
            });
            let find = FindScenario::new(spec, vec![]);
            let mut sc = Sc {
                find,
                follow_flag: if under_l { Some("-L".into()) } else { None },
                follow_in_expr: false,
                starts: if rng.chance(1, 2) { vec!["t".into()] } else { vec!["t".into(), "u".into()] },
                mindepth: None,
                maxdepth: None,
                depth: rng.chance(1, 3),
                sorted: rng.chance(1, 2),
                earlier_mindepth: None,
                earlier_maxdepth: None,
                note: "hundreds of unreadable entries".into(),
            };
            sc.render();
            return sc;
        }
        let nroots = rng.small(1, 3);
        let roots: Vec<String> = ["t", "u", "v"][..nroots].iter().map(|s| s.to_string()).collect();
        let cfg = TreeCfg {
            roots: roots.clone(),
            max_entries: *rng.pick(&[0, 3, 8, 15, 25, 40]),
            max_depth: rng.urange(1, 6),
            names: if rng.chance(1, 5) { NameStyle::Hostile } else { NameStyle::Simple },
            link_weight: *rng.pick(&[0, 10, 25, 40]),
            allow_loops: rng.chance(1, 2),
            outside: rng.chance(1, 3),
            fifo: rng.chance(1, 10),
            raw_byte: None,
        };
        let mut spec = gen_tree(rng, &cfg);
        // now and then a chain of directories dozens of levels deep, walked while only a few
        // descriptors may be open: the walk must not need one descriptor per level
        let deep_chain = rng.chance(1, 25);
        if deep_chain {
            let mut p = roots[0].clone();
            for k in 0..rng.urange(24, 48) {
                p = format!("{p}/q{k}");
                spec.nodes.push(Node::Dir { path: p.clone() });
                if rng.chance(1, 5) {
                    spec.nodes.push(Node::File { path: format!("{p}/leaf"), size: 1, token: k as u32, atime_ns: None, mtime_ns: None });
                }
            }
        }
        // links at the top level that can serve as starting points
        let mut top_links = vec![];
        if rng.chance(1, 3) {
            let dirs = dirs_of(&spec);
            let d = rng.pick(&dirs).clone();
            spec.nodes.push(Node::Symlink {
                path: "lnk".into(),
                target: d,
            });
            top_links.push("lnk".to_string());
            if rng.chance(1, 3) {
                spec.nodes.push(Node::Symlink {
                    path: "dangling".into(),
                    target: "nowhere".into(),
                });
                top_links.push("dangling".to_string());
            }
        }
        // starting points
        let all = paths_of(&spec);
        let nstarts = rng.small(1, 4);
        let mut starts = vec![];
        for _ in 0..nstarts {
            let s = match rng.weighted(&[50, 20, if top_links.is_empty() { 0 } else { 15 }, 8, 7, 2]) {
                0 => rng.pick(&roots).clone(),
                1 => rng.pick(&all).clone(),
                2 => rng.pick(&top_links).clone(),
                3 => "missing".to_string(),
                // the empty string: it names nothing, and nothing (not `.`) is walked for it
                5 => {
                    starts.push(String::new());
                    continue;
                }
                _ => starts.last().filter(|l| !l.is_empty()).cloned().unwrap_or_else(|| roots[0].clone()),
            };
            // spelling variants
            let s = if s.starts_with('-') || s.contains("/-") && false {
                format!("./{s}")
            } else {
                s
            };
            let s = match rng.weighted(&[70, 15, 15]) {
                0 => s,
                1 => format!("./{s}"),
                _ => {
                    if dirs_of(&spec).contains(&s) {
                        format!("{s}/")
                    } else {
                        s
                    }
                }
            };
            // hostile names may look like expression tokens; keep them safe
            let bad = s.starts_with('-') || s == "!" || s == "(" || s == ")" || s == ",";
            starts.push(if bad { format!("./{s}") } else { s });
        }
        // now and then hundreds of starting points (the same few, over and over): every one of
        // them is walked
        if rng.chance(1, 150) {
            let n = *rng.pick(&[255usize, 256, 257, 300]);
            let base = starts.clone();
            starts = (0..n).map(|i| base[i % base.len()].clone()).collect();
        }
        // every component of a hostile path might begin with '-', which is
        // fine once it is not the first character of the argument
        let follow_flag = match rng.weighted(&[35, 15, 20, 30]) {
            0 => None,
            1 => Some("-P".to_string()),
            2 => Some("-H".to_string()),
            _ => Some("-L".to_string()),
        };
        // -follow in the expression, also behind -P or -H on the command line: from there on
        // links are followed as under -L, whatever the flag said
        let follow_in_expr = rng.chance(1, 6);
        let mut mindepth = if rng.chance(1, 2) { Some(rng.urange(0, 5)) } else { None };
        let mut maxdepth = if rng.chance(1, 2) { Some(rng.urange(0, 5)) } else { None };
        // bounds far beyond any tree: everything (as -maxdepth) or nothing (as -mindepth)
        if rng.chance(1, 30) {
            let huge = *rng.pick(&[255usize, 256, 65_536, 2_147_483_647, 2_147_483_648, 4_294_967_295, 4_294_967_296]);
            if rng.chance(2, 3) {
                maxdepth = Some(huge);
            } else {
                mindepth = Some(huge);
            }
        }
        // faults
        let fault_mode = rng.weighted(&[55, 25, 20]);
        let mut mutations = vec![];
        match fault_mode {
            1 => {
                // permission faults (real, under the dropped uid)
                let dirs: Vec<String> = dirs_of(&spec).into_iter().filter(|d| d.contains('/') || rng.chance(1, 4)).collect();
                if !dirs.is_empty() {
                    for _ in 0..rng.small(1, 2) {
                        let d = rng.pick(&dirs).clone();
                        let mode = *rng.pick(&[0o000u32, 0o000, 0o600, 0o300]);
                        if !spec.chmods.iter().any(|(p, _)| *p == d) {
                            spec.chmods.push((d, mode));
                        }
                    }
                    // deepest first so that chmod itself can reach its target
                    spec.chmods.sort_by(|a, b| b.0.len().cmp(&a.0.len()));
                }
            }
            2 => {
                // a racing process changes the tree while find walks it
                let paths = paths_of(&spec);
                if !paths.is_empty() {
                    for _ in 0..rng.small(1, 3) {
                        let p = rng.pick(&paths).clone();
                        let op = match rng.weighted(&[30, 25, 15, 15, 15]) {
                            0 => MutOp::RmTree,
                            1 => MutOp::ToFile,
                            2 => MutOp::RenameAway,
                            3 => MutOp::Unlink,
                            _ => MutOp::Create,
                        };
                        let path = if op == MutOp::Create { format!("{p}.new") } else { p };
                        mutations.push(Mutation {
                            at: When::AfterRecord(rng.usize_below(12)),
                            op,
                            path,
                        });
                    }
                }
            }
            _ => {}
        }
        let sink_plan = if rng.chance(1, 4) {
            (0..rng.urange(1, 30))
                .map(|_| if rng.chance(1, 4) { WriteOp::Intr } else { WriteOp::Accept(rng.urange(1, 4)) })
                .collect()
        } else {
            vec![]
        };
        let spec_has_no_faults = spec.chmods.is_empty() && mutations.is_empty();
        let mut find = FindScenario::new(spec, vec![]);
        // -xdev/-mount only where no link loops and nothing is unreadable (see gen_extras)
        let xdev_ok = !cfg.allow_loops && spec_has_no_faults;
        find.gen_extras(rng, xdev_ok);
        if deep_chain {
            find.ambient.nofile_headroom = Some(rng.urange(16, 22) as u32);
        }
        if rng.chance(1, 10) && !starts.iter().any(|s| s.is_empty()) {
            // (a zero-length name in the list is the business of `files0_empty_after`)
            find.starts_via_file = true;
            find.files0_no_final_nul = rng.chance(1, 3);
            if rng.chance(1, 3) {
                find.files0_empty_after = Some(rng.usize_below(starts.len() + 1).min(starts.len().saturating_sub(0)));
            }
        }
        find.mutations = mutations;
        find.sink_plan = sink_plan;
        find.record_delim = 0;
        let mut sc = Sc {
            find,
            follow_flag,
            follow_in_expr,
            starts,
            mindepth,
            maxdepth,
            depth: rng.chance(1, 3),
            sorted: rng.chance(1, 2),
            earlier_mindepth: if rng.chance(1, 10) { Some(rng.urange(0, 6)) } else { None },
            earlier_maxdepth: if rng.chance(1, 10) { Some(rng.urange(0, 6)) } else { None },
            note: String::new(),
        };
        sc.render();
        sc
    }

    fn budget(tier: Tier) -> u64 {
        match tier {
            Tier::Quick => 150_000,
            Tier::Thorough => 3_000_000,
        }
    }

    fn check(sc: &Sc, ctx: &mut Ctx, rep: &mut Report) {
        let mut find = sc.find.clone();
        if !ctx.unprivileged && !find.tree.chmods.is_empty() {
            // permission bits are not faults for root
            find.tree.chmods.clear();
            rep.probe("permission_faults_disabled_running_as_root");
        }
        // build, reference walk, then the real run on the same tree
        let root = ctx.scratch.join("A");
        let _ = std::env::set_current_dir(&ctx.scratch);
        crate::sys::wipe(&root);
        std::fs::create_dir_all(&root).expect("scratch root");
        if let Err(e) = tree::build(&root, &find.tree) {
            rep.fail("C02.HARNESS-tree-build", format!("cannot build tree: {e}"));
            return;
        }
        let wcfg = WalkCfg {
            follow: sc.follow(),
            mindepth: sc.mindepth.unwrap_or(0),
            maxdepth: sc.maxdepth.unwrap_or(usize::MAX),
            depth_first: sc.depth,
            sorted: sc.sorted,
        };
        crate::find::prepare_side_files(&find, &root);
        let mut rw = RefWalk::default();
        if find.starts_via_file {
            rep.probe("starting_points_through_files0_from");
        }
        if find.starts_via_file && find.files0_empty_after.is_some() {
            // a zero-length name is diagnosed and skipped; whether it also makes the status
            // non-zero is not for C02 to say
            rw.diag_allowed = true;
            rep.probe("zero_length_name_in_the_list");
        }
        for s in &sc.starts {
            tree::ref_walk(&root, s, &wcfg, &mut rw);
        }
        let obs = run_find_prebuilt(&find, ctx, root);
        rep.executions += 1;
        account_find(&obs, rep);
        // probes
        if rw.loops > 0 {
            rep.probe("directory_cycle_through_link");
        }
        if rw.unreadable_dirs > 0 {
            rep.fault_n("unreadable_or_unsearchable_directory", rw.unreadable_dirs as u64);
        }
        if rw.dangling_links > 0 {
            rep.probe("dangling_link_followed_mode");
        }
        if rw.followed_links > 0 {
            rep.probe("link_followed");
        }
        if wcfg.mindepth > wcfg.maxdepth {
            rep.probe("mindepth_greater_than_maxdepth");
        }
        if sc.starts.len() > 1 {
            rep.probe("several_starting_points");
        }
        if sc.starts.len() >= 255 {
            rep.probe("hundreds_of_starting_points");
        }
        if sc.note == "huge directory" {
            rep.probe("directory_with_more_than_65535_entries");
            rep.want_sample = false;
        }
        if sc.note.starts_with("hundreds") && (rw.diag_owed || rw.unreadable_dirs > 0) {
            rep.probe("hundreds_of_unreadable_entries_under_one_starting_point");
        }
        if sc.earlier_mindepth.is_some() && sc.mindepth.is_some() || sc.earlier_maxdepth.is_some() && sc.maxdepth.is_some() {
            rep.probe("depth_option_given_twice");
        }
        if sc.starts.iter().any(|s| s.trim_start_matches("./") == "missing") {
            rep.probe("missing_starting_point");
        }
        if sc.starts.iter().any(|s| s.is_empty()) {
            rep.probe("empty_string_as_starting_point");
        }

        if let RunStatus::Panic(msg) = &obs.status {
            rep.fail("C02.panic", format!("argv {:?}: find panicked: {msg}", find.argv));
            return;
        }
        if obs.log.budget_exhausted {
            rep.fail("C02.followed-forever", format!("argv {:?}: output budget exhausted: the walk does not terminate", find.argv));
            return;
        }
        let (records, tail) = obs.records(0);
        if !tail.is_empty() {
            rep.fail("C02.unterminated-record", format!("argv {:?}: output ends with an unterminated record", find.argv));
            return;
        }
        // open prefixes: below unreadable directories and around mutated paths
        let mut open: Vec<String> = rw.open_below.clone();
        let mut mutated = false;
        for m in &find.mutations {
            mutated = true;
            for s in &sc.starts {
                // the mutated path as find would print it under each spelling
                let base = s.trim_end_matches('/');
                let plain = base.trim_start_matches("./");
                if m.path == plain || m.path.starts_with(&format!("{plain}/")) || plain.starts_with(&format!("{}/", m.path)) {
                    let rest = m.path.strip_prefix(plain).unwrap_or("");
                    let shown = format!("{}{}", if s.ends_with('/') && rest.is_empty() { s.as_str() } else { base }, rest);
                    open.push(shown.clone());
                    open.push(format!("{shown}.moved"));
                    if plain.starts_with(&format!("{}/", m.path)) || m.path == plain {
                        // the starting point itself is affected
                        open.push(s.clone());
                        open.push(base.to_string());
                    }
                }
            }
            // links resolve through mutated paths in ways not modelled: any
            // link in the tree makes the whole run "open" for mutated runs
        }
        let has_links = find.tree.nodes.iter().any(|n| matches!(n, Node::Symlink { .. }));
        let fully_open = mutated && has_links && sc.follow() != FollowMode::P;
        let is_open = |p: &str| -> bool {
            fully_open
                || open.iter().any(|o| {
                    let o2 = o.trim_end_matches('/');
                    p == o || p == o2 || p.starts_with(&format!("{o2}/"))
                })
        };
        let mut must: BTreeMap<&str, usize> = BTreeMap::new();
        for (p, _) in &rw.must {
            *must.entry(p.as_str()).or_insert(0) += 1;
        }
        let mut may: BTreeMap<&str, usize> = BTreeMap::new();
        for p in &rw.may {
            *may.entry(p.as_str()).or_insert(0) += 1;
        }
        let mut seen: BTreeMap<String, usize> = BTreeMap::new();
        for r in &records {
            *seen.entry(String::from_utf8_lossy(r).into_owned()).or_insert(0) += 1;
        }
        let describe = || {
            format!(
                "argv {:?} (tree of {} nodes, chmods {:?}, mutations {:?})",
                find.argv,
                find.tree.nodes.len(),
                find.tree.chmods,
                find.mutations
            )
        };
        for (p, n) in &must {
            if is_open(p) {
                continue;
            }
            let got = seen.get(*p).copied().unwrap_or(0);
            let extra = may.get(p).copied().unwrap_or(0);
            if got < *n {
                // classify
                let unreadable_dir_under_l = wcfg.follow == FollowMode::L
                    && std::fs::symlink_metadata(obs.root.join(p)).map(|m| m.file_type().is_symlink()).unwrap_or(false)
                    && std::fs::metadata(obs.root.join(p)).map(|m| m.is_dir()).unwrap_or(false)
                    && std::fs::read_dir(obs.root.join(p)).err().and_then(|e| e.raw_os_error()) == Some(libc::EACCES);
                let class = if unreadable_dir_under_l {
                    "C02.entry-skipped.L-link-to-unreadable-directory"
                } else if h_symlink_root_depth_bug(sc, &obs.root, p, wcfg.mindepth) {
                    "C02.entry-skipped.H-symlink-root-with-depth"
                } else {
                    "C02.entry-skipped"
                };
                rep.fail(
                    class,
                    format!("{}: [{}] must be evaluated {} time(s), was evaluated {}; stderr: {}", describe(), p, n, got, crate::sys::lossy(&obs.stderr[..obs.stderr.len().min(300)])),
                );
                return;
            }
            if got > *n + extra {
                rep.fail("C02.entry-repeated", format!("{}: [{}] evaluated {} times, expected {}", describe(), p, got, n));
                return;
            }
        }
        for (p, got) in &seen {
            if is_open(p) {
                continue;
            }
            let allowed = must.get(p.as_str()).copied().unwrap_or(0) + may.get(p.as_str()).copied().unwrap_or(0);
            if *got > allowed {
                let class = if wcfg.mindepth > wcfg.maxdepth {
                    "C02.printed-although-mindepth-exceeds-maxdepth"
                } else if allowed == 0 {
                    "C02.entry-out-of-range-or-unexpected"
                } else {
                    "C02.entry-repeated"
                };
                rep.fail(class, format!("{}: [{}] evaluated {} time(s), allowed {}", describe(), p, got, allowed));
                return;
            }
        }
        // diagnostics and exit status
        let status_nonzero = obs.status != RunStatus::Exit(0);
        if rw.diag_owed && !mutated {
            if !status_nonzero || obs.stderr.is_empty() {
                rep.fail(
                    "C02.missing-diagnostic-or-status",
                    format!("{}: a diagnostic and a non-zero status are owed (unreadable entry, cycle, or bad starting point); status {:?}, stderr [{}]", describe(), obs.status, crate::sys::lossy(&obs.stderr[..obs.stderr.len().min(300)])),
                );
                return;
            }
        }
        if !rw.diag_owed && !rw.diag_allowed && !mutated && find.tree.chmods.is_empty() && status_nonzero {
            rep.fail(
                "C02.spurious-failure-status",
                format!("{}: nothing went wrong but status {:?}, stderr [{}]", describe(), obs.status, crate::sys::lossy(&obs.stderr[..obs.stderr.len().min(300)])),
            );
            return;
        }
        if rep.want_sample {
            rep.sample = Some(json!({
                "argv": find.argv,
                "tree": find.tree,
                "mutations": find.mutations,
                "reference_must_visit": rw.must.iter().map(|(p, d)| json!([p, d])).collect::<Vec<_>>(),
                "reference_may_visit": rw.may,
                "open_below": open,
                "diagnostic_owed": rw.diag_owed,
                "observed_records": records.iter().map(|r| crate::sys::show(r)).collect::<Vec<_>>(),
                "status": obs.status,
                "stderr": crate::sys::lossy(&obs.stderr),
            }));
        }
    }

    fn shrink(sc: &Sc) -> Vec<Sc> {
        let mut out = vec![];
        let mut push = |mut s: Sc| {
            s.render();
            out.push(s);
        };
        if sc.starts.len() > 1 {
            for i in 0..sc.starts.len() {
                let mut s = sc.clone();
                s.starts.remove(i);
                push(s);
            }
        }
        for i in 0..sc.find.mutations.len() {
            let mut s = sc.clone();
            s.find.mutations.remove(i);
            push(s);
        }
        if !sc.find.sink_plan.is_empty() {
            let mut s = sc.clone();
            s.find.sink_plan.clear();
            push(s);
        }
        if sc.depth {
            let mut s = sc.clone();
            s.depth = false;
            push(s);
        }
        if sc.sorted {
            let mut s = sc.clone();
            s.sorted = false;
            push(s);
        }
        if sc.mindepth.is_some() {
            let mut s = sc.clone();
            s.mindepth = None;
            push(s);
        }
        if sc.maxdepth.is_some() {
            let mut s = sc.clone();
            s.maxdepth = None;
            push(s);
        }
        if let Some(m) = sc.mindepth {
            if m > 0 {
                let mut s = sc.clone();
                s.mindepth = Some(m - 1);
                push(s);
            }
        }
        if let Some(m) = sc.maxdepth {
            if m > 0 {
                let mut s = sc.clone();
                s.maxdepth = Some(m - 1);
                push(s);
            }
        }
        if sc.follow_flag.is_some() {
            let mut s = sc.clone();
            s.follow_flag = None;
            push(s);
        }
        let protect: Vec<String> = sc
            .starts
            .iter()
            .map(|s| s.trim_start_matches("./").trim_end_matches('/').to_string())
            .chain(sc.find.mutations.iter().map(|m| m.path.trim_end_matches(".new").to_string()))
            .collect();
        for t in shrink_tree(&sc.find.tree, &protect) {
            let mut s = sc.clone();
            s.find.tree = t;
            push(s);
        }
        out
    }

    fn crosscheck(sc: &Sc, ctx: &mut Ctx, bins: &std::path::Path) -> crate::crosscheck::Xc {
        if !sc.sorted {
            return crate::crosscheck::Xc::NotComparable;
        }
        crate::crosscheck::find(&sc.find, ctx, bins, "\u{1}no-command")
    }

    fn crosscheck_extras() -> Vec<Sc> {
        // 20 000 entries, some 250 KB of output: what a buffer in front of the real standard
        // output does at its edges shows only on outputs of this size
        let mut spec = crate::tree::TreeSpec::default();
        for p in ["t", "t/big"] {
            spec.nodes.push(Node::Dir { path: p.into() });
        }
        spec.bulk.push(crate::tree::Bulk { dir: "t/big".into(), count: 20_000, kind: crate::tree::BulkKind::File });
        let mut out = vec![];
        for depth in [false, true] {
            let mut sc = Sc {
                find: FindScenario::new(spec.clone(), vec![]),
                follow_flag: None,
                follow_in_expr: false,
                starts: vec!["t".into()],
                mindepth: None,
                maxdepth: None,
                depth,
                sorted: true,
                earlier_mindepth: None,
                earlier_maxdepth: None,
                note: "cross-check extra: big output".into(),
            };
            sc.render();
            out.push(sc);
        }
        out
    }

    fn rule() -> &'static str {
        "one evaluation = one seeded scenario: a tree (directories, files, fifos, symlinks to files / directories inside and outside / ancestors / themselves / nothing / other links) built for real on tmpfs, 1-4 starting points (existing, missing, files, links, duplicates; spelled t, ./t, t/), follow mode -P/-H/-L/-follow (-follow also behind a -P/-H/-L flag: then as -L), every (mindepth, maxdepth) in 0..5 incl. mindepth > maxdepth, -depth and -sorted on/off, `-print0` into a simulated stdout (short writes, EINTR); fault batches: directories made unreadable (000/0300) or unsearchable (0600) under a dropped uid, and a scripted racing process that removes / replaces / renames / creates entries right after the k-th record is written; oracle: independent lstat/stat/readdir walk run on the same tree before find starts; starting points also through -files0-from (with a zero-length name, without the final NUL); 1/25 of the runs walk a chain 24-48 levels deep while the soft RLIMIT_NOFILE leaves 16-22 descriptors; the process environment is a dimension too (variables nobody should listen to such as POSIXLY_CORRECT, TZ with daylight saving, LC_ALL, in a sixth of the runs; descriptor 1 a terminal in a tenth); after the simulated runs a slice of the same scenarios goes through the real find executable (a difference is a violation); distinct = distinct abstract trace (write results, mutations, exit status); non-trivial = a fault fired or a shape probe hit (cycle, dangling link, followed link, mindepth > maxdepth, several / missing starting points)"
    }

    fn components() -> Value {
        json!({
            "real": ["parse_args", "build_matcher_tree (-mindepth/-maxdepth/-depth/-sorted/-follow)", "process_dir", "walkdir", "WalkEntry::from_walkdir", "Printer", "find_main", "the kernel's file system (tmpfs), permissions under uid 65534"],
            "stub": ["stdout (SimSink via Dependencies::get_output)", "clock (unused here)", "the racing process (scripted mutator acting at record boundaries)"]
        })
    }

    fn assumptions() -> Vec<&'static str> {
        vec![
            "below a directory that cannot be listed or searched, and at/below a path the racing process touched, nothing is demanded (entries may or may not be evaluated); everything outside must match exactly",
            "a link that closes a cycle, or that cannot be resolved for a reason other than ENOENT/ENOTDIR, must be diagnosed; whether it is itself evaluated is left open",
            "when a racing mutation is combined with followed links the multiset check is suspended (the run still must not panic, hang or repeat forever)",
        ]
    }
}
