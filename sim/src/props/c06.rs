//! C06 — xargs never builds a command line the operating system rejects.
//!
//! Pass-through spawn of /bin/true: the real execve of this kernel decides.

use serde::{Deserialize, Serialize};
use serde_json::{json, Value};

use crate::ctx::{Ctx, RunStatus};
use crate::prop::{Property, Report, Tier};
use crate::rng::Rng;
use crate::world::{Event, B};
use crate::xargs::{run_xargs, Opt, RealKind, XargsScenario};
use crate::xgen::*;

pub const MAX_ARG_STRLEN: usize = 131072;

#[derive(Clone, Debug, Serialize, Deserialize)]
pub struct Sc {
    pub opts: Vec<Opt>,
    /// the input: for each group, `count` arguments of `len` bytes
    pub groups: Vec<(usize, usize)>,
    pub nul: bool,
    pub rlimit_stack: Option<u64>,
    /// environment: `env_vars` variables with values of `env_val_len` bytes
    pub env_vars: usize,
    pub env_val_len: usize,
    /// 0: variables named E0, E1, …; 1: names as they occur in real environments (exported
    /// shell functions `BASH_FUNC_f%%`, LS_COLORS, LESS_TERMCAP_*, `_`, dotted and lower-case
    /// names): every one of them is passed to the children and counts against the budget
    #[serde(default)]
    pub env_name_style: u8,
    /// the command is spelled `./fusim-true` (a link to /bin/true) and xargs runs in a working
    /// directory whose absolute path is this many bytes long
    #[serde(default)]
    pub rel_cmd_cwd: Option<usize>,
    pub initial: Vec<String>,
    /// replace mode (-I {}): `initial` holds templates, every input line is one invocation
    /// whose arguments are the templates with {} replaced by the line
    #[serde(default)]
    pub replace: bool,
    /// arguments per input line (blank separated); 0 or 1 = one argument per line
    #[serde(default)]
    pub words_per_line: usize,
    /// arguments made of 3-byte characters: the budget is in bytes, not characters
    #[serde(default)]
    pub multibyte: bool,
}

pub struct C06;

/// (literal bytes, occurrences of {}) of a template
fn template_shape(t: &str) -> (usize, usize) {
    let m = t.matches("{}").count();
    (t.len() - 2 * m, m)
}

fn arg_bytes_of(multibyte: bool, i: usize, len: usize) -> Vec<u8> {
    let c = b'a' + (i % 26) as u8;
    if multibyte {
        let mut v = Vec::with_capacity(len);
        while v.len() + 3 <= len {
            v.extend_from_slice("\u{3042}".as_bytes()); // E3 81 82
        }
        v.resize(len, c);
        return v;
    }
    vec![c; len]
}

impl Sc {
    pub fn lens(&self) -> Vec<usize> {
        let mut v = vec![];
        for (c, l) in &self.groups {
            for _ in 0..*c {
                v.push(*l);
            }
        }
        v
    }

    pub fn env(&self) -> Vec<(String, String)> {
        let mut env = vec![("PATH".to_string(), "/usr/bin:/bin".to_string())];
        for i in 0..self.env_vars {
            let name = if self.env_name_style == 0 {
                format!("E{i}")
            } else {
                match i % 8 {
                    0 => format!("BASH_FUNC_f{i}%%"),
                    1 => format!("LESS_TERMCAP_m{i}"),
                    2 => format!("lower_case{i}"),
                    3 => format!("dotted.name{i}"),
                    4 => format!("BASH_FUNC_module{i}%%"),
                    5 => format!("LS_COLORS{i}"),
                    6 => format!("_{i}"),
                    _ => format!("E{i}"),
                }
            };
            env.push((name, "v".repeat(self.env_val_len)));
        }
        env
    }

    pub fn to_xargs(&self) -> XargsScenario {
        let mut input = Vec::new();
        let sep = if self.nul { 0u8 } else { b'\n' };
        let w = self.words_per_line.max(1);
        let mut i = 0usize;
        for (c, l) in &self.groups {
            for _ in 0..*c {
                input.extend_from_slice(&arg_bytes_of(self.multibyte, i, *l));
                i += 1;
                input.push(if !self.nul && i % w != 0 { b' ' } else { sep });
            }
        }
        if input.last() == Some(&b' ') {
            *input.last_mut().unwrap() = b'\n';
        }
        let mut opts = self.opts.clone();
        if self.nul {
            opts.insert(0, Opt::Null);
        }
        let mut cmd = vec![if self.rel_cmd_cwd.is_some() { "./fusim-true".to_string() } else { "/bin/true".to_string() }];
        cmd.extend(self.initial.iter().cloned());
        let mut extra = crate::xargs::XExtra::default();
        extra.long_cwd = self.rel_cmd_cwd;
        XargsScenario {
            opts,
            cmd,
            input: B(input),
            read_plan: vec![],
            outcomes: vec![],
            rlimit_stack: self.rlimit_stack,
            env: Some(self.env()),
            real: Some(RealKind::Program),
            note: "c06".into(),
            decoy_in_cwd: false,
            echo_mode: false,
            extra,
        }
    }
}

/// Bytes the kernel charges for one invocation: every string with its
/// terminator plus one pointer per argv/envp entry.
pub fn kernel_cost(argv_lens: impl Iterator<Item = usize>, argc: usize, env: &[(String, String)]) -> usize {
    let strings: usize = argv_lens.map(|l| l + 1).sum();
    let envs: usize = env.iter().map(|(k, v)| k.len() + v.len() + 2).sum();
    strings + envs + 8 * (argc + env.len()) + "/bin/true".len() + 1
}

/// The kernel's budget for argv+envp of a child started under `rlimit_stack`.
pub fn kernel_budget(rlimit_stack: Option<u64>, default_stack: u64) -> usize {
    let rl = rlimit_stack.unwrap_or(default_stack);
    let lim = if rl == u64::MAX { 6 << 20 } else { (rl / 4).min(6 << 20) };
    (lim as usize).max(131072)
}

/// The kernel is the judge of what can be passed: really exec /bin/true with these arguments
/// under the run's environment and stack limit (both still in force in this process).
fn kernel_accepts(args: &[Vec<u8>], env: &[(String, String)]) -> bool {
    use std::os::unix::ffi::OsStrExt;
    let mut c = std::process::Command::new("/bin/true");
    for a in args {
        c.arg(std::ffi::OsStr::from_bytes(a));
    }
    c.env_clear();
    for (k, v) in env {
        c.env(k, v);
    }
    matches!(c.status(), Ok(st) if st.success())
}

/// Every invocation is a real fork and exec: whatever the families above drew, the number of
/// invocations a scenario needs stays in the low thousands (the argument groups are scaled
/// down, their lengths and everything else stay).
fn cap_invocations(sc: &mut Sc) {
    const MAX_INVOCATIONS: usize = 3000;
    let total_args: usize = sc.groups.iter().map(|g| g.0).sum();
    if total_args == 0 {
        return;
    }
    let per: usize = if sc.replace {
        1
    } else {
        let total_bytes: usize = sc.groups.iter().map(|g| g.0 * (g.1 + 1)).sum();
        let avg = (total_bytes / total_args).max(1);
        let base: usize = 12 + sc.initial.iter().map(|a| a.len() + 1).sum::<usize>();
        let mut per = usize::MAX;
        for o in &sc.opts {
            match o {
                Opt::S(s) => per = per.min((s.saturating_sub(base) / avg).max(1)),
                Opt::N(n) => per = per.min((*n).max(1)),
                Opt::L(l) => per = per.min((l * sc.words_per_line.max(1)).max(1)),
                _ => {}
            }
        }
        per
    };
    if per == usize::MAX {
        return;
    }
    let invocations = total_args.div_ceil(per);
    if invocations > MAX_INVOCATIONS {
        let keep = (MAX_INVOCATIONS * per) as f64 / total_args as f64;
        for g in sc.groups.iter_mut() {
            g.0 = ((g.0 as f64 * keep) as usize).max(1);
        }
    }
}

impl C06 {
    fn gen_inner(rng: &mut Rng, tier: Tier) -> Sc {
        let rlimit_stack = match rng.weighted(&[30, 10, 10, 8, 20, 6, 6, 5, 5]) {
            0 => Some(512 * 1024), // kernel budget at its 128 KiB floor
            1 => Some(1 << 20),
            2 => Some(2 << 20),
            3 => Some(4 << 20),
            4 => None, // the worker's default (8 MiB -> 2 MiB budget)
            5 => Some(16 << 20),
            6 => Some(24 << 20),
            7 => Some(64 << 20),
            _ => Some(u64::MAX),
        };
        let budget = kernel_budget(rlimit_stack, 8 << 20);
        // environment: empty .. ~100 KiB, few large or many tiny variables
        let (env_vars, env_val_len) = match rng.weighted(&[30, 20, 20, 15, 15]) {
            0 => (0, 0),
            1 => (rng.urange(1, 20), rng.urange(1, 100)),
            2 => (rng.urange(100, 3000), rng.urange(0, 8)),
            3 => (rng.urange(1, 3), rng.urange(10_000, 30_000)),
            _ => (rng.urange(20, 60), rng.urange(500, 1500)),
        };
        let env_bytes = env_vars * (env_val_len + 8);
        let (env_vars, env_val_len) = if env_bytes + 20_000 > budget {
            (env_vars.min(200), env_val_len.min(50))
        } else {
            (env_vars, env_val_len)
        };
        // how much input: enough to need several invocations most of the time
        let cap = match tier {
            Tier::Quick => 1 << 20,
            Tier::Thorough => 8 << 20,
        };
        let target_cost = (budget * rng.urange(1, 6) / 2).min(cap);
        let shape = rng.weighted(&[30, 15, 20, 15, 10, 10]);
        let mut groups: Vec<(usize, usize)> = vec![];
        let mut cost = 0usize;
        let mut push = |groups: &mut Vec<(usize, usize)>, c: usize, l: usize, cost: &mut usize| {
            if c > 0 {
                groups.push((c, l));
                // pointer-inclusive cost, so that short arguments do not explode the count
                *cost += c * (l + 1);
            }
        };
        match shape {
            0 => {
                // all 1-byte arguments: pointer overhead dominates
                let n = (target_cost / 2).min(600_000).max(1);
                push(&mut groups, n, 1, &mut cost);
            }
            1 => {
                let l = rng.urange(2, 9);
                let n = (target_cost / (l + 1)).min(600_000).max(1);
                push(&mut groups, n, l, &mut cost);
            }
            2 => {
                // mixed
                while cost < target_cost && groups.len() < 40 {
                    let l = match rng.weighted(&[4, 4, 2, 1]) {
                        0 => rng.urange(1, 3),
                        1 => rng.urange(4, 40),
                        2 => rng.urange(100, 4000),
                        _ => rng.urange(10_000, 60_000),
                    };
                    let c = (rng.urange(1, 20_000)).min((target_cost / (l + 1)).max(1));
                    push(&mut groups, c, l, &mut cost);
                }
            }
            3 => {
                // near the per-argument limit
                let n = rng.urange(1, 6);
                for _ in 0..n {
                    let l = MAX_ARG_STRLEN - 1 - rng.urange(0, 3) * rng.urange(0, 1000);
                    push(&mut groups, 1, l, &mut cost);
                    if rng.chance(1, 2) {
                        let c = rng.urange(1, 2000);
                        push(&mut groups, c, rng.urange(1, 10), &mut cost);
                    }
                }
            }
            4 => {
                // one argument at or beyond the per-argument limit among ordinary ones
                let before = rng.urange(0, 3000);
                push(&mut groups, before, rng.urange(1, 20), &mut cost);
                let l = MAX_ARG_STRLEN - 1 + rng.urange(0, 2) + if rng.chance(1, 3) { rng.urange(0, 100_000) } else { 0 };
                push(&mut groups, 1, l, &mut cost);
                push(&mut groups, rng.urange(0, 100), 3, &mut cost);
            }
            _ => {
                // few arguments: one invocation
                push(&mut groups, rng.urange(1, 50), rng.urange(1, 200), &mut cost);
            }
        }
        if rng.chance(1, 40) {
            // beyond the kernel's 6 MiB ceiling: a large finite (or unlimited) stack limit and
            // more input than one command line can ever hold, in arguments long enough to
            // keep the count small
            let l = rng.urange(500, 3000);
            let total = (6 << 20) + rng.urange(100_000, 1_500_000);
            return Sc {
                opts: vec![],
                groups: vec![(total / (l + 9) + 1, l)],
                nul: rng.chance(1, 3),
                rlimit_stack: Some(*rng.pick(&[32u64 << 20, 64 << 20, 1 << 30, u64::MAX])),
                env_vars: rng.urange(0, 30),
                env_val_len: rng.urange(0, 50),
                env_name_style: 0,
                rel_cmd_cwd: None,
                initial: vec![],
                replace: false,
                words_per_line: 1,
                multibyte: rng.chance(1, 3),
            };
        }
        if rng.chance(1, 6) {
            // replace mode: the command line that is run is built by substitution, so its size
            // is a multiple of the line length; aim at the per-argument limit and at the budget
            let ntempl = rng.small(1, 4);
            let mut initial: Vec<String> = vec![];
            for _ in 0..ntempl {
                let mut t = String::new();
                for _ in 0..rng.small(1, 4) {
                    match rng.weighted(&[2, 5, 1]) {
                        0 => t.push_str(*rng.pick(&["x", "--opt=", "pre/", ".suf"])),
                        1 => t.push_str("{}"),
                        _ => t.push_str("{}{}{}"),
                    }
                }
                initial.push(t);
            }
            // large fixed arguments that carry no placeholder: they count against the budget of
            // the substituted command line like everything else
            let mut fixed_bytes = 0usize;
            if rng.chance(1, 3) {
                for _ in 0..rng.small(1, 12) {
                    let l = rng.urange(1000, (budget / 16).clamp(2000, 120_000));
                    fixed_bytes += l + 9;
                    initial.push("f".repeat(l));
                }
                rng.shuffle(&mut initial);
            }
            let shapes: Vec<(usize, usize)> = initial.iter().map(|t| template_shape(t)).collect();
            let m_max = shapes.iter().map(|s| s.1).max().unwrap_or(0).max(1);
            let m_sum = shapes.iter().map(|s| s.1).sum::<usize>().max(1);
            let env_cost = env_vars * (env_val_len + 4 + 2 + 8) + 40 + fixed_bytes;
            let mut groups = vec![];
            for _ in 0..rng.small(1, 6) {
                let l = match rng.weighted(&[3, 4, 4, 1]) {
                    0 => rng.urange(1, 200),
                    // one substituted argument at the per-argument limit
                    1 => (MAX_ARG_STRLEN / m_max + 3).saturating_sub(rng.urange(0, 6)).max(1),
                    // the whole command line at the kernel's budget
                    2 => (budget.saturating_sub(env_cost + 2048) / m_sum + 600).saturating_sub(rng.urange(0, 1200)).clamp(1, MAX_ARG_STRLEN + 10),
                    _ => rng.urange(1, MAX_ARG_STRLEN + 100),
                };
                groups.push((rng.small(1, 3), l));
            }
            return Sc {
                opts: vec![Opt::ReplI("{}".into())],
                groups,
                nul: rng.chance(1, 3),
                rlimit_stack,
                env_vars,
                env_val_len,
                env_name_style: u8::from(rng.chance(1, 4)),
                rel_cmd_cwd: None,
                initial,
                replace: true,
                words_per_line: 1,
                multibyte: rng.chance(1, 4),
            };
        }
        let mut opts = vec![];
        // -L with many words per line: every word, not only the one that ends a line, must be
        // charged to the system limit
        let words_per_line = if rng.chance(1, 10) {
            opts.push(Opt::L(*rng.pick(&[1usize, 1, 2, 5, 1000])));
            *rng.pick(&[2usize, 7, 50, 1000, 100_000])
        } else {
            1
        };
        if words_per_line == 1 && rng.chance(1, 5) {
            opts.push(Opt::N(*rng.pick(&[1000, 5000, 100_000, 1_000_000])));
        }
        if rng.chance(1, 5) {
            opts.push(Opt::S(*rng.pick(&[4096, 65_536, 131_072, 1_000_000, 4_000_000, 100_000_000])));
        }
        let mut initial = vec![];
        for _ in 0..rng.small(0, 3) {
            initial.push("i".repeat(rng.urange(1, 30)));
        }
        if rng.chance(1, 12) {
            // hundreds of fixed arguments: each costs a pointer too
            let n = rng.urange(300, (budget / 64).clamp(301, 4000));
            let l = rng.urange(1, 3);
            for _ in 0..n {
                initial.push("i".repeat(l));
            }
        }
        if words_per_line > 1 {
            // every -L group is a real fork+exec: keep their number in the low thousands
            let k = opts.iter().find_map(|o| if let Opt::L(k) = o { Some(*k) } else { None }).unwrap_or(1);
            let mut room = 2000usize.saturating_mul(words_per_line).saturating_mul(k);
            for g in groups.iter_mut() {
                g.0 = g.0.min(room.max(1));
                room = room.saturating_sub(g.0);
            }
        }
        Sc {
            opts,
            groups,
            nul: words_per_line == 1 && rng.chance(1, 3),
            rlimit_stack,
            env_vars,
            env_val_len,
            env_name_style: u8::from(rng.chance(1, 4)),
            rel_cmd_cwd: if rng.chance(1, 12) { Some(*rng.pick(&[2200usize, 3000, 3900])) } else { None },
            initial,
            replace: false,
            words_per_line,
            multibyte: rng.chance(1, 5),
        }
    }

}

impl Property for C06 {
    const ID: &'static str = "C06";
    type Sc = Sc;

    fn generate(rng: &mut Rng, tier: Tier) -> Sc {
        let mut sc = C06::gen_inner(rng, tier);
        cap_invocations(&mut sc);
        sc
    }

    fn budget(tier: Tier) -> u64 {
        match tier {
            Tier::Quick => 1_600,
            Tier::Thorough => 60_000,
        }
    }

    fn hang_limit_s() -> u64 {
        120
    }

    fn check(sc: &Sc, ctx: &mut Ctx, rep: &mut Report) {
        let xs = sc.to_xargs();
        let env = sc.env();
        let obs = run_xargs(&xs, ctx);
        rep.executions += 1;
        let budget = kernel_budget(sc.rlimit_stack, ctx.default_stack);
        let arg_max_seen = crate::sys::arg_max();
        let lens = sc.lens();
        let ncmd = xs.cmd.len();
        rep.probe(match sc.rlimit_stack {
            Some(v) if v <= 512 * 1024 => "budget_128KiB_floor",
            Some(u64::MAX) => "stack_unlimited",
            Some(v) if v >= (24 << 20) => "budget_6MiB_cap",
            _ => "budget_between",
        });
        if sc.env_vars >= 100 {
            rep.probe("many_tiny_environment_variables");
        }
        if sc.words_per_line > 1 {
            rep.probe("max_lines_with_several_words_per_line");
        }
        if sc.multibyte && lens.iter().any(|l| *l >= 3) {
            rep.probe("multibyte_arguments");
        }
        if sc.env_vars > 0 && sc.env_val_len >= 10_000 {
            rep.probe("few_large_environment_variables");
        }
        if let RunStatus::Panic(msg) = &obs.status {
            rep.fail("C06.panic", format!("xargs panicked: {msg}"));
            return;
        }
        // walk the spawn log
        let mut delivered: Vec<usize> = vec![];
        let mut spawns = 0usize;
        let mut e2big = None;
        let mut max_cost = 0usize;
        let mut oversize_handed = None;
        let mut spawn_lens: Vec<Vec<usize>> = vec![];
        for ev in &obs.log.events {
            if let Event::Spawn { argv, real_status, .. } = ev {
                rep.steps += 1;
                if sc.replace {
                    spawn_lens.push(argv.iter().skip(1).map(|a| a.0.len()).collect());
                    if let Some(a) = argv.iter().find(|a| a.0.len() + 1 > MAX_ARG_STRLEN) {
                        oversize_handed = Some(a.0.len());
                    }
                }
                let cost = kernel_cost(argv.iter().map(|a| a.0.len()), argv.len(), &env);
                max_cost = max_cost.max(cost);
                for a in &argv[ncmd.min(argv.len())..] {
                    delivered.push(a.0.len());
                    if a.0.len() + 1 > MAX_ARG_STRLEN {
                        oversize_handed = Some(a.0.len());
                    }
                }
                if *real_status == Some(-libc::E2BIG) && e2big.is_none() {
                    e2big = Some((spawns, argv.len(), cost));
                    rep.fault("execve_E2BIG");
                }
                if cost * 10 > budget * 9 {
                    rep.probe("invocation_within_10_percent_of_kernel_budget");
                }
                spawns += 1;
            }
        }
        rep.trace.u64(crate::rng::bucket(spawns));
        rep.trace.u64(crate::rng::bucket(lens.len()));
        rep.trace.u64(sc.rlimit_stack.unwrap_or(1));
        rep.trace.u64(crate::rng::bucket(sc.env_vars));
        rep.trace.u64(crate::rng::bucket(lens.iter().copied().max().unwrap_or(0)));
        trace_status(&obs, rep);
        if spawns > 1 {
            rep.probe("several_invocations");
        }
        let ctxs = format!(
            "rlimit_stack={:?} sysconf(ARG_MAX)={} kernel budget={} env={}x{}B opts={:?} groups={:?} initial={:?}",
            sc.rlimit_stack, arg_max_seen, budget, sc.env_vars, sc.env_val_len, sc.opts, &sc.groups[..sc.groups.len().min(8)], sc.initial
        );
        if let Some((k, argc, cost)) = e2big {
            let pointer_dominated = lens.iter().sum::<usize>() < lens.len() * 8;
            rep.fail(
                if pointer_dominated { "C06.e2big-many-short-arguments" } else { "C06.e2big" },
                format!(
                    "{ctxs}: invocation #{k} with {argc} arguments (kernel cost {cost} bytes incl. pointers) was rejected by execve with E2BIG; exit status {:?}; stderr: {}",
                    obs.status,
                    crate::sys::lossy(&obs.stderr[..obs.stderr.len().min(200)])
                ),
            );
            return;
        }
        if let Some(l) = oversize_handed {
            rep.fail(
                "C06.oversize-argument-handed-to-exec",
                format!("{ctxs}: an argument of {l} bytes (beyond the per-argument limit {}) was handed to exec", MAX_ARG_STRLEN - 1),
            );
            return;
        }
        if sc.replace {
            rep.probe("replace_mode");
            let shapes: Vec<(usize, usize)> = sc.initial.iter().map(|t| template_shape(t)).collect();
            let env_cost: usize = env.iter().map(|(k, v)| k.len() + v.len() + 2 + 8).sum::<usize>() + 16 + 2 * ("/bin/true".len() + 1) + 8;
            let raw_templates: usize = sc.initial.iter().map(|t| t.len() + 1 + 8).sum();
            let slack = 2048 + 4096;
            let mut expect: Vec<Vec<usize>> = vec![];
            let mut stop: Option<(usize, bool)> = None;
            for (i, l) in lens.iter().enumerate() {
                let args: Vec<usize> = shapes.iter().map(|(lit, m)| lit + m * l).collect();
                let total: usize = env_cost + args.iter().map(|a| a + 1 + 8).sum::<usize>();
                let certain = args.iter().any(|a| a + 1 > MAX_ARG_STRLEN) || total > budget;
                // xargs also charges the line itself next to the unsubstituted templates
                let as_line = env_cost + raw_templates + l + 1 + 8;
                let gray = !certain && (total + slack > budget || as_line + slack > budget || l + 1 > MAX_ARG_STRLEN);
                if certain || gray {
                    stop = Some((i, certain));
                    if certain {
                        rep.probe("substituted_command_line_too_large");
                    }
                    break;
                }
                if total * 10 > budget * 8 || args.iter().any(|a| (a + 1) * 10 > MAX_ARG_STRLEN * 9) {
                    rep.probe("substituted_command_line_near_a_limit");
                }
                expect.push(args);
            }
            let describe = |k: usize| format!("{ctxs}: line #{k} of {} bytes", lens.get(k).copied().unwrap_or(0));
            match stop {
                None => {
                    if spawn_lens != expect {
                        let at = spawn_lens.iter().zip(&expect).position(|(a, b)| a != b).unwrap_or(spawn_lens.len().min(expect.len()));
                        rep.fail("C06.replace-invocations", format!("{}: {} invocations, {} expected; first difference at #{at}: {:?} vs {:?}; exit {:?}; stderr: {}", describe(at), spawn_lens.len(), expect.len(), spawn_lens.get(at), expect.get(at), obs.status, crate::sys::lossy(&obs.stderr[..obs.stderr.len().min(200)])));
                    } else if obs.status != RunStatus::Exit(0) {
                        rep.fail("C06.exit-status", format!("{ctxs}: all invocations accepted but exit status {:?}", obs.status));
                    }
                }
                Some((i, certain)) => {
                    // the line before the one that cannot be passed may or may not have been run
                    let common = spawn_lens.len().min(expect.len());
                    let prefix_ok = spawn_lens[..common] == expect[..common]
                        && (spawn_lens.len() >= i || (spawn_lens.len() + 1 == i && obs.status == RunStatus::Exit(1)));
                    let reported = obs.status == RunStatus::Exit(1) && !obs.stderr.is_empty() && (spawn_lens.len() == i || spawn_lens.len() + 1 == i);
                    if !prefix_ok {
                        rep.fail("C06.replace-invocations", format!("{}: the {} lines before it were not all run as expected ({} invocations)", describe(i), i, spawn_lens.len()));
                    } else if certain && !reported && {
                        let l = lens[i];
                        let args: Vec<Vec<u8>> = sc.initial.iter().map(|t| {
                            let mut out = vec![];
                            let tb = t.as_bytes();
                            let mut k = 0;
                            while k < tb.len() {
                                if tb[k..].starts_with(b"{}") {
                                    out.extend_from_slice(&arg_bytes_of(sc.multibyte, i, l));
                                    k += 2;
                                } else {
                                    out.push(tb[k]);
                                    k += 1;
                                }
                            }
                            out
                        }).collect();
                        kernel_accepts(&args, &env)
                    } {
                        rep.probe("accounting_said_unpassable_but_the_kernel_accepts");
                    } else if certain && !reported {
                        rep.fail(
                            "C06.oversize-argument-not-reported",
                            format!("{}: the substituted command line cannot be passed; expected exit 1 with a diagnostic and nothing after it, got {:?}, {} invocations, stderr: {}", describe(i), obs.status, spawn_lens.len(), crate::sys::lossy(&obs.stderr[..obs.stderr.len().min(200)])),
                        );
                    }
                    // gray zone: either outcome; nothing more is demanded after it
                }
            }
            return;
        }
        // which arguments must / must not be deliverable alone
        let fixed: usize = xs.cmd.iter().map(|c| c.len() + 1 + 8).sum::<usize>()
            + env.iter().map(|(k, v)| k.len() + v.len() + 2 + 8).sum::<usize>()
            + 16
            + "/bin/true".len()
            + 1;
        let explicit_s = sc.opts.iter().find_map(|o| if let Opt::S(s) = o { Some(*s) } else { None });
        let base_s: usize = xs.cmd.iter().map(|c| c.len() + 1).sum();
        let mut first_unfit: Option<(usize, bool)> = None; // (index, certain)
        for (i, l) in lens.iter().enumerate() {
            let by_kernel = *l + 1 > MAX_ARG_STRLEN || fixed + l + 1 + 8 > budget;
            let by_s = explicit_s.map_or(false, |s| base_s + l + 1 > s);
            let gray = !by_kernel && !by_s && fixed + l + 1 + 8 + 2048 + 4096 > budget;
            if by_kernel || by_s {
                first_unfit = Some((i, true));
                break;
            }
            if gray {
                first_unfit = Some((i, false));
                break;
            }
        }
        match first_unfit {
            None => {
                if delivered != lens {
                    let at = delivered.iter().zip(&lens).position(|(a, b)| a != b).unwrap_or(delivered.len().min(lens.len()));
                    rep.fail(
                        "C06.arguments-not-delivered-once-in-order",
                        format!("{ctxs}: {} of {} arguments delivered; first difference at #{at}; exit {:?}; stderr: {}", delivered.len(), lens.len(), obs.status, crate::sys::lossy(&obs.stderr[..obs.stderr.len().min(200)])),
                    );
                    return;
                }
                if obs.status != RunStatus::Exit(0) {
                    rep.fail(
                        "C06.exit-status",
                        format!("{ctxs}: all invocations accepted but exit status {:?}; stderr: {}", obs.status, crate::sys::lossy(&obs.stderr[..obs.stderr.len().min(200)])),
                    );
                }
            }
            Some((i, certain)) => {
                rep.probe(if certain { "argument_too_large_to_pass" } else { "argument_in_headroom_gray_zone" });
                // everything delivered comes from before the argument, in order; the invocation
                // being filled when it arrived may or may not have been run first
                let prefix_ok = delivered.len() <= lens.len() && delivered[..] == lens[..delivered.len()] && (delivered.len() >= i || obs.status == RunStatus::Exit(1));
                let reported = obs.status == RunStatus::Exit(1) && !obs.stderr.is_empty() && delivered.len() <= i;
                let passed_all = delivered == lens && obs.status == RunStatus::Exit(0);
                if !prefix_ok {
                    rep.fail(
                        "C06.arguments-not-delivered-once-in-order",
                        format!("{ctxs}: arguments before the oversize one (#{i}) were not all delivered in order ({} delivered)", delivered.len()),
                    );
                } else if certain && !reported && explicit_s.map_or(true, |s| base_s + lens[i] + 1 <= s) && lens[i] + 1 <= MAX_ARG_STRLEN && {
                    // the accounting above said "cannot be passed" but xargs passed it: ask the kernel
                    let mut args: Vec<Vec<u8>> = xs.cmd[1..].iter().map(|c| c.as_bytes().to_vec()).collect();
                    args.push(arg_bytes_of(sc.multibyte, i, lens[i]));
                    kernel_accepts(&args, &env)
                } {
                    rep.probe("accounting_said_unpassable_but_the_kernel_accepts");
                } else if certain && !reported {
                    rep.fail(
                        "C06.oversize-argument-not-reported",
                        format!("{ctxs}: argument #{i} ({} bytes) cannot be passed, expected exit 1 with a diagnostic and nothing after it; got {:?}, {} delivered, stderr: {}", lens[i], obs.status, delivered.len(), crate::sys::lossy(&obs.stderr[..obs.stderr.len().min(200)])),
                    );
                } else if !certain && !(reported || passed_all) {
                    // a later argument may be certainly unfit; accept a report there
                    let later_report = obs.status == RunStatus::Exit(1) && !obs.stderr.is_empty() && delivered.len() > i && delivered[..] == lens[..delivered.len()];
                    if !later_report {
                        rep.fail(
                            "C06.gray-zone-neither-passed-nor-reported",
                            format!("{ctxs}: argument #{i} is within the headroom zone; got {:?}, {} delivered", obs.status, delivered.len()),
                        );
                    }
                }
            }
        }
        if rep.want_sample {
            rep.sample = Some(json!({
                "scenario": sc,
                "arguments": lens.len(),
                "sysconf_ARG_MAX": arg_max_seen,
                "kernel_budget": budget,
                "invocations": spawns,
                "largest_invocation_kernel_cost": max_cost,
                "status": obs.status,
            }));
        }
    }

    fn shrink(sc: &Sc) -> Vec<Sc> {
        let mut out = vec![];
        for i in 0..sc.opts.len() {
            if sc.replace {
                break; // the replace option is what makes the scenario a replace-mode one
            }
            let mut s = sc.clone();
            s.opts.remove(i);
            out.push(s);
        }
        if sc.env_vars > 0 {
            let mut s = sc.clone();
            s.env_vars = 0;
            out.push(s);
            let mut s = sc.clone();
            s.env_vars /= 2;
            out.push(s);
        }
        if !sc.initial.is_empty() && !sc.replace {
            let mut s = sc.clone();
            s.initial.clear();
            out.push(s);
        }
        if sc.nul {
            let mut s = sc.clone();
            s.nul = false;
            out.push(s);
        }
        if sc.replace {
            for i in 0..sc.initial.len() {
                if sc.initial.len() > 1 {
                    let mut s = sc.clone();
                    s.initial.remove(i);
                    out.push(s);
                }
            }
        }
        for i in 0..sc.groups.len() {
            if sc.groups.len() > 1 {
                let mut s = sc.clone();
                s.groups.remove(i);
                out.push(s);
            }
            let (c, l) = sc.groups[i];
            for nc in [c / 2, c * 3 / 4, c - c / 10, c.saturating_sub(1)] {
                if nc > 0 && nc < c {
                    let mut s = sc.clone();
                    s.groups[i].0 = nc;
                    out.push(s);
                }
            }
            for nl in [1, l / 2, l.saturating_sub(1)] {
                if nl > 0 && nl < l {
                    let mut s = sc.clone();
                    s.groups[i].1 = nl;
                    out.push(s);
                }
            }
        }
        out
    }

    fn rule() -> &'static str {
        "one evaluation = one seeded scenario (argument count 1..600000, length distribution from all-1-byte through mixed to at/over the per-argument limit, RLIMIT_STACK from 512 KiB to unlimited, environment from empty to ~100 KiB in few large or many tiny variables, optional -n/-s, default or -0 input; in one run of six replace mode -I {} with templates carrying 1-6 occurrences of {} and lines sized so that a substituted argument lands at the per-argument limit or the whole substituted command line at the kernel budget) run through xargs_main with every invocation really exec'ing /bin/true under that stack limit and environment: the fault is execve returning E2BIG, and this kernel is the judge; distinct = distinct (invocation-count bucket, argument-count bucket, stack limit, environment bucket, longest-argument bucket, exit status); non-trivial = E2BIG fired or a boundary probe hit (128 KiB floor, 6 MiB cap, unlimited stack, invocation within 10% of the kernel budget, several invocations, unpassable argument)"
    }

    fn components() -> Value {
        json!({
            "real": ["xargs_main end to end", "sysconf(_SC_ARG_MAX) under the run's real RLIMIT_STACK", "the real environment of the worker process", "fork + execve(/bin/true) + wait by this kernel for every invocation"],
            "stub": ["stdin (SimStream, one chunk)"]
        })
    }

    fn assumptions() -> Vec<&'static str> {
        vec![
            "Linux: per-argument limit MAX_ARG_STRLEN = 131072 including the terminator; argv+envp budget max(min(RLIMIT_STACK/4, 6 MiB), 128 KiB) with one pointer charged per entry — used only to decide which single arguments cannot be passed at all; acceptance of every built command line is decided by the real execve",
            "an argument that fits only by eating into the 2048-byte POSIX headroom or one page of slack may be either passed or reported",
        ]
    }
}
