//! Tree and command-line generators shared by the find properties.

use std::collections::BTreeSet;

use crate::rng::Rng;
use crate::tree::{Node, TreeSpec};

#[derive(Clone, Copy, PartialEq, Eq)]
pub enum NameStyle {
    /// a, b, c1 ...
    Simple,
    /// arbitrary valid UTF-8 without '/' and NUL: blanks, quotes, newlines,
    /// leading dashes, glob characters, `{}`, multi-byte
    Hostile,
    /// simple names padded to 50..240 bytes, so that paths get long
    Long,
}

pub struct TreeCfg {
    pub roots: Vec<String>,
    pub max_entries: usize,
    pub max_depth: usize,
    pub names: NameStyle,
    /// weight of symlinks among new entries (0 = none)
    pub link_weight: u64,
    pub allow_loops: bool,
    /// an "out" area next to the roots that links may point into
    pub outside: bool,
    pub fifo: bool,
    /// names may contain one byte that is not valid UTF-8 (hostile style only)
    pub raw_byte: Option<u8>,
}

const HOSTILE_PIECES: &[&str] = &[
    " ", "  ", "\n", "\t", "'", "\"", "\\", "-", "--", "{}", "$(x)", "*", "?", "[a]", "!", "(", ")", ";", "+", ",",
    "-delete", "-print", "-exec", "-o", "-quit", "-prune",
    // other control characters: a carriage return (also as the last byte of a name), escape,
    // vertical tab, delete
    "\r", "\r", "\u{1b}", "\u{b}", "\u{7f}", "\u{1}",
    "\u{e9}", "\u{1F600}", "a", "b", "Z", "0", ".", "..x", "=", "%", "%p", "\\n", "`", "&", "|", ">", "#", "~",
];

pub fn gen_name(rng: &mut Rng, style: NameStyle, raw: bool, taken: &BTreeSet<String>) -> String {
    for _ in 0..50 {
        let name = match style {
            NameStyle::Simple => {
                let mut s = String::new();
                s.push(*rng.pick(&['a', 'b', 'c', 'd', 'e', 'f', 'g', 'h', 'k', 'm']));
                if rng.chance(1, 2) {
                    s.push(*rng.pick(&['0', '1', '2', 'x', 'y', '.', '_']));
                }
                if rng.chance(1, 6) {
                    s.push_str(*rng.pick(&[".txt", ".rs", "~", ".d"]));
                }
                if raw && rng.chance(1, 4) {
                    let at = rng.usize_below(s.len() + 1);
                    s.insert(at, crate::tree::RAW_SENTINEL);
                }
                s
            }
            NameStyle::Long => {
                let mut s = String::new();
                s.push(*rng.pick(&['a', 'b', 'c', 'd', 'e', 'f', 'g', 'h']));
                s.push(*rng.pick(&['0', '1', '2', '3', '4', '5', '6', '7', '8', '9']));
                s.push('_');
                let n = if rng.chance(1, 30) { 252 } else { rng.urange(50, 240) };
                for _ in 0..n {
                    s.push('x');
                }
                s
            }
            NameStyle::Hostile => {
                let mut s = String::new();
                let n = rng.small(1, 5);
                for _ in 0..n {
                    if raw && rng.chance(1, 4) {
                        s.push(crate::tree::RAW_SENTINEL);
                    } else {
                        s.push_str(*rng.pick(HOSTILE_PIECES));
                    }
                }
                if rng.chance(1, 40) {
                    // a long name (up to NAME_MAX bytes)
                    while s.len() < 200 {
                        s.push_str(*rng.pick(&["long ", "\u{e9}\u{e9}", "-x", "q"]));
                    }
                    s.truncate(s.char_indices().map(|(i, _)| i).take_while(|i| *i <= 250).last().unwrap_or(0));
                    if !raw && rng.chance(1, 2) {
                        // exactly NAME_MAX (255) or one less
                        let want = *rng.pick(&[255usize, 255, 254]);
                        while s.len() < want {
                            s.push('z');
                        }
                    }
                }
                s
            }
        };
        if name.is_empty() || name == "." || name == ".." || name.len() > 255 || taken.contains(&name) {
            continue;
        }
        return name;
    }
    // fall back to something unique
    let mut i = taken.len();
    loop {
        let n = format!("n{i}");
        if !taken.contains(&n) {
            return n;
        }
        i += 1;
    }
}

fn depth_of(p: &str) -> usize {
    p.matches('/').count()
}

/// Relative path from directory `from_dir` (relative to cwd) to `to` (relative to cwd).
pub fn relative_target(from_dir: &str, to: &str) -> String {
    let ups = if from_dir.is_empty() { 0 } else { depth_of(from_dir) + 1 };
    let mut s = String::new();
    for _ in 0..ups {
        s.push_str("../");
    }
    s.push_str(to);
    s
}

pub fn gen_tree(rng: &mut Rng, cfg: &TreeCfg) -> TreeSpec {
    let mut spec = TreeSpec::default();
    spec.raw_byte = cfg.raw_byte;
    let mut dirs: Vec<String> = vec![];
    let mut files: Vec<String> = vec![];
    let mut links: Vec<String> = vec![];
    let mut children: std::collections::BTreeMap<String, BTreeSet<String>> = Default::default();
    for r in &cfg.roots {
        spec.nodes.push(Node::Dir { path: r.clone() });
        dirs.push(r.clone());
    }
    if cfg.outside {
        spec.nodes.push(Node::Dir { path: "out".into() });
        spec.nodes.push(Node::Dir { path: "out/od".into() });
        spec.nodes.push(Node::File {
            path: "out/of".into(),
            size: 3,
            token: 0x6f7574,
            atime_ns: None,
            mtime_ns: None,
        });
        spec.nodes.push(Node::File {
            path: "out/od/inner".into(),
            size: 5,
            token: 0x696e6e,
            atime_ns: None,
            mtime_ns: None,
        });
    }
    let n = rng.urange(0, cfg.max_entries);
    for _ in 0..n {
        let parent = rng.pick(&dirs).clone();
        let pdepth = depth_of(&parent) + 1;
        let taken = children.entry(parent.clone()).or_default();
        let name = gen_name(rng, cfg.names, cfg.raw_byte.is_some(), taken);
        taken.insert(name.clone());
        let path = format!("{parent}/{name}");
        if path.len() > 3500 {
            continue;
        }
        let kind = rng.weighted(&[
            if pdepth < cfg.max_depth { 35 } else { 0 },
            40,
            cfg.link_weight,
            if cfg.fifo { 2 } else { 0 },
        ]);
        match kind {
            0 => {
                spec.nodes.push(Node::Dir { path: path.clone() });
                dirs.push(path);
            }
            1 => {
                spec.nodes.push(Node::File {
                    path: path.clone(),
                    size: *rng.pick(&[0u64, 0, 1, 3, 10, 512, 1024, 5000]),
                    token: rng.next() as u32,
                    atime_ns: None,
                    mtime_ns: None,
                });
                files.push(path);
            }
            2 => {
                let target = match rng.weighted(&[
                    if files.is_empty() { 0 } else { 20 },
                    20,
                    10,
                    if cfg.allow_loops { 10 } else { 0 },
                    if cfg.allow_loops { 4 } else { 0 },
                    if cfg.outside { 10 } else { 0 },
                    if links.is_empty() { 0 } else { 8 },
                ]) {
                    0 => relative_target(&parent, &rng.pick(&files).clone()),
                    1 => {
                        // a directory inside; skip ancestors unless loops are allowed
                        let d = rng.pick(&dirs).clone();
                        let is_ancestor = parent == d || parent.starts_with(&format!("{d}/"));
                        if is_ancestor && !cfg.allow_loops {
                            "dangling-target".to_string()
                        } else {
                            relative_target(&parent, &d)
                        }
                    }
                    2 => "no-such-target".to_string(),
                    3 => rng.pick(&[".", "..", "../.."]).to_string(),
                    4 => name.clone(), // points at itself: ELOOP
                    5 => relative_target(&parent, *rng.pick(&["out/of", "out/od", "out"])),
                    _ => relative_target(&parent, &rng.pick(&links).clone()),
                };
                spec.nodes.push(Node::Symlink {
                    path: path.clone(),
                    target,
                });
                links.push(path);
            }
            _ => spec.nodes.push(Node::Fifo { path }),
        }
    }
    // now and then one entry whose name is exactly NAME_MAX (255) bytes long, or one less:
    // the longest name there is (whatever the naming style of the tree)
    if rng.chance(1, 25) {
        let parent = rng.pick(&dirs).clone();
        let len = *rng.pick(&[255usize, 255, 254]);
        let name = format!("N{}", "z".repeat(len - 1));
        let path = format!("{parent}/{name}");
        if path.len() <= 3500 && depth_of(&parent) + 1 <= cfg.max_depth.max(1) {
            if rng.chance(1, 3) {
                spec.nodes.push(Node::Dir { path: path.clone() });
                spec.nodes.push(Node::File { path: format!("{path}/in"), size: 1, token: 7, atime_ns: None, mtime_ns: None });
            } else {
                spec.nodes.push(Node::File { path, size: 3, token: 0x4e4e4e, atime_ns: None, mtime_ns: None });
            }
        }
    }
    spec
}

pub fn dirs_of(spec: &TreeSpec) -> Vec<String> {
    spec.nodes
        .iter()
        .filter_map(|n| if let Node::Dir { path } = n { Some(path.clone()) } else { None })
        .collect()
}

pub fn paths_of(spec: &TreeSpec) -> Vec<String> {
    spec.nodes.iter().map(|n| n.path().to_string()).collect()
}

/// Generic tree shrinking: drop one node (with its subtree), drop a chmod.
pub fn shrink_tree(spec: &TreeSpec, protect: &[String]) -> Vec<TreeSpec> {
    let mut out = vec![];
    for i in (0..spec.nodes.len()).rev() {
        let p = spec.nodes[i].path();
        if protect.iter().any(|q| q == p || q.starts_with(&format!("{p}/"))) {
            continue;
        }
        out.push(spec.without(i));
    }
    for i in 0..spec.chmods.len() {
        let mut s = spec.clone();
        s.chmods.remove(i);
        out.push(s);
    }
    out
}

/// Tests whose value does not depend on what actions do to the tree
/// (-name/-iname/-path/-type/-true/-false with ! -a -o and parentheses).
pub fn gen_stable_tests(rng: &mut Rng) -> Vec<String> {
    fn atom(rng: &mut Rng) -> Vec<String> {
        match rng.weighted(&[30, 10, 15, 8, 4, 4]) {
            0 => vec!["-name".into(), rng.pick(&["*", "*a*", "*b*", "?*", "[a-f]*", "*.txt", "*1*", "* *", "a*", "*x"]).to_string()],
            1 => vec!["-iname".into(), rng.pick(&["*A*", "*B*", "C*"]).to_string()],
            2 => vec!["-type".into(), rng.pick(&["f", "d", "l", "f", "d"]).to_string()],
            3 => vec!["-path".into(), rng.pick(&["*/a*", "*t/*", "*/*/*", "*b*"]).to_string()],
            4 => vec!["-true".into()],
            _ => vec!["-false".into()],
        }
    }
    let mut out: Vec<String> = vec![];
    match rng.weighted(&[35, 30, 15, 10, 10]) {
        0 => {}
        1 => out.extend(atom(rng)),
        2 => {
            out.push("!".into());
            out.extend(atom(rng));
        }
        3 => {
            out.push("(".into());
            out.extend(atom(rng));
            out.push("-o".into());
            out.extend(atom(rng));
            out.push(")".into());
        }
        _ => {
            out.extend(atom(rng));
            if rng.chance(1, 2) {
                out.push("-a".into());
            }
            out.push("!".into());
            out.extend(atom(rng));
        }
    }
    out
}
