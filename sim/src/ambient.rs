//! The process environment a run happens in, as one more dimension of a scenario: variables
//! in the environment, what kind of file descriptor 1 is, how many descriptors may be open.
//! None of the claimed statements mentions any of it, so none of it may change what they
//! describe; a change that makes the behaviour hang on one of them becomes visible.
//!
//! `enter` arranges the process, the returned guard puts everything back when dropped.

use std::sync::OnceLock;

use serde::{Deserialize, Serialize};

use crate::rng::Rng;

#[derive(Clone, Debug, Default, PartialEq, Eq, Serialize, Deserialize)]
pub struct Ambient {
    /// variables set on top of the base environment (PATH, TZ=UTC, LC_ALL=C)
    #[serde(default)]
    pub env: Vec<(String, String)>,
    /// descriptor 1 of the process is a terminal (the slave side of a pty) during the run;
    /// find's output still goes to the simulated sink
    #[serde(default)]
    pub stdout_tty: bool,
    /// descriptor 1 of the process is a pipe whose reading end is gone (`find … | head -1`
    /// after head has left); find's output still goes to the simulated sink
    #[serde(default)]
    pub stdout_closed_pipe: bool,
    /// soft RLIMIT_NOFILE = highest descriptor open at the start of the run + 1 + this many
    #[serde(default)]
    pub nofile_headroom: Option<u32>,
}

const ENV_MENU: &[(&str, &[&str])] = &[
    ("POSIXLY_CORRECT", &["", "1"]),
    (
        "TZ",
        &[
            "EST5EDT,M3.2.0,M11.1.0",
            "America/New_York",
            "Europe/London",
            "CET-1CEST,M3.5.0,M10.5.0/3",
            "<+0330>-3:30",
            "Australia/Lord_Howe",
            "NZST-12NZDT,M9.5.0,M4.1.0/3",
            "not a zone",
        ],
    ),
    ("LC_ALL", &["en_US.UTF-8", "tr_TR.UTF-8", "ja_JP.eucJP", "POSIX"]),
    ("LANG", &["en_US.UTF-8", "C.UTF-8", "de_DE"]),
    ("COLUMNS", &["1", "0"]),
    ("BLOCK_SIZE", &["512", "1M"]),
    ("IFS", &["x", ""]),
    ("FIND_BLOCK_SIZE", &["1"]),
    ("HOME", &["", "/nonexistent"]),
    ("TERM", &["dumb", "xterm-256color"]),
    ("LS_COLORS", &["di=01;34"]),
    ("_", &["/usr/bin/find"]),
];

impl Ambient {
    pub fn is_plain(&self) -> bool {
        *self == Ambient::default()
    }

    /// Environment noise: with probability 1/`one_in`, one to three variables from the menu.
    pub fn gen_env(rng: &mut Rng, one_in: u64) -> Vec<(String, String)> {
        let mut env: Vec<(String, String)> = vec![];
        if !rng.chance(1, one_in) {
            return env;
        }
        for _ in 0..rng.small(1, 3) {
            // the first two entries are the ones programs most often consult
            let k = if rng.chance(1, 2) { rng.usize_below(2) } else { rng.usize_below(ENV_MENU.len()) };
            let (name, vals) = ENV_MENU[k];
            if env.iter().any(|(n, _)| n == name) {
                continue;
            }
            env.push((name.to_string(), rng.pick(vals).to_string()));
        }
        env
    }

    pub fn enter(&self) -> Guard {
        let mut g = Guard { env_saved: vec![], fd1_saved: None, nofile_saved: None };
        for (k, v) in &self.env {
            g.env_saved.push((k.clone(), std::env::var_os(k)));
            std::env::set_var(k, v);
        }
        if self.stdout_tty {
            if let Some(slave) = pty_slave() {
                unsafe {
                    let saved = libc::dup(1);
                    if saved >= 0 {
                        libc::fcntl(saved, libc::F_SETFD, libc::FD_CLOEXEC);
                        libc::dup2(slave, 1);
                        g.fd1_saved = Some(saved);
                    }
                }
            }
        }
        if self.stdout_closed_pipe && g.fd1_saved.is_none() {
            unsafe {
                let mut fds = [0i32; 2];
                if libc::pipe(fds.as_mut_ptr()) == 0 {
                    libc::close(fds[0]);
                    let saved = libc::dup(1);
                    if saved >= 0 {
                        libc::fcntl(saved, libc::F_SETFD, libc::FD_CLOEXEC);
                        libc::dup2(fds[1], 1);
                        g.fd1_saved = Some(saved);
                    }
                    libc::close(fds[1]);
                }
            }
        }
        if let Some(h) = self.nofile_headroom {
            unsafe {
                let mut rl = libc::rlimit { rlim_cur: 0, rlim_max: 0 };
                if libc::getrlimit(libc::RLIMIT_NOFILE, &mut rl) == 0 {
                    let want = (highest_fd() + 1 + h as u64).min(rl.rlim_max);
                    let new = libc::rlimit { rlim_cur: want, rlim_max: rl.rlim_max };
                    if libc::setrlimit(libc::RLIMIT_NOFILE, &new) == 0 {
                        g.nofile_saved = Some(rl);
                    }
                }
            }
        }
        g
    }
}

pub struct Guard {
    env_saved: Vec<(String, Option<std::ffi::OsString>)>,
    fd1_saved: Option<i32>,
    nofile_saved: Option<libc::rlimit>,
}

impl Drop for Guard {
    fn drop(&mut self) {
        if let Some(rl) = self.nofile_saved.take() {
            unsafe {
                libc::setrlimit(libc::RLIMIT_NOFILE, &rl);
            }
        }
        if let Some(saved) = self.fd1_saved.take() {
            unsafe {
                libc::dup2(saved, 1);
                libc::close(saved);
            }
        }
        for (k, v) in self.env_saved.drain(..).rev() {
            match v {
                Some(v) => std::env::set_var(&k, v),
                None => std::env::remove_var(&k),
            }
        }
    }
}

/// Highest descriptor number currently open in this process.
fn highest_fd() -> u64 {
    let mut max = 2u64;
    if let Ok(rd) = std::fs::read_dir("/proc/self/fd") {
        // the descriptor read_dir itself holds is closed again when this returns; counting it
        // only makes the limit one more generous
        for e in rd.flatten() {
            if let Some(n) = e.file_name().to_str().and_then(|s| s.parse::<u64>().ok()) {
                max = max.max(n);
            }
        }
    }
    max
}

/// One pty per process, opened at first use; both ends stay open for the life of the process.
fn pty_slave() -> Option<i32> {
    static PTY: OnceLock<Option<(i32, i32)>> = OnceLock::new();
    PTY.get_or_init(|| unsafe {
        let mut master = 0i32;
        let mut slave = 0i32;
        if libc::openpty(&mut master, &mut slave, std::ptr::null_mut(), std::ptr::null(), std::ptr::null()) != 0 {
            return None;
        }
        libc::fcntl(master, libc::F_SETFD, libc::FD_CLOEXEC);
        libc::fcntl(slave, libc::F_SETFD, libc::FD_CLOEXEC);
        Some((master, slave))
    })
    .map(|(_, s)| s)
}

/// Whether this sandbox can give a run a terminal at all (evidence reports it).
pub fn tty_available() -> bool {
    pty_slave().is_some()
}
