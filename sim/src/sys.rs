//! Process-wide state a worker owns: fd 2, environment, RLIMIT_STACK, uid,
//! current directory, scratch root.

use std::ffi::{CString, OsStr, OsString};
use std::fs;
use std::io;
use std::os::unix::ffi::OsStrExt;
use std::os::unix::fs::PermissionsExt;
use std::path::{Path, PathBuf};

/// Captures everything written to fd 2 (by this process and by children that
/// inherit it) in a memfd.
pub struct StderrCapture {
    fd: i32,
    pub saved: i32,
}

impl StderrCapture {
    pub fn install() -> io::Result<Self> {
        unsafe {
            let name = CString::new("fusim-stderr").unwrap();
            let fd = libc::memfd_create(name.as_ptr(), 0);
            if fd < 0 {
                return Err(io::Error::last_os_error());
            }
            let saved = libc::dup(2);
            if saved < 0 {
                return Err(io::Error::last_os_error());
            }
            // keep the saved descriptor away from children
            libc::fcntl(saved, libc::F_SETFD, libc::FD_CLOEXEC);
            if libc::dup2(fd, 2) < 0 {
                return Err(io::Error::last_os_error());
            }
            Ok(StderrCapture { fd, saved })
        }
    }

    /// Forget everything captured so far.
    pub fn reset(&self) {
        unsafe {
            libc::ftruncate(self.fd, 0);
            libc::lseek(self.fd, 0, libc::SEEK_SET);
        }
    }

    /// Everything written since the last reset.
    pub fn take(&self) -> Vec<u8> {
        unsafe {
            let end = libc::lseek(self.fd, 0, libc::SEEK_END);
            if end <= 0 {
                return Vec::new();
            }
            let mut buf = vec![0u8; end as usize];
            let mut off = 0usize;
            while off < buf.len() {
                let n = libc::pread(
                    self.fd,
                    buf[off..].as_mut_ptr() as *mut libc::c_void,
                    buf.len() - off,
                    off as i64,
                );
                if n <= 0 {
                    break;
                }
                off += n as usize;
            }
            buf.truncate(off);
            buf
        }
    }

    /// Write a harness diagnostic to the real stderr.
    pub fn real_eprint(&self, msg: &str) {
        unsafe {
            libc::write(self.saved, msg.as_ptr() as *const libc::c_void, msg.len());
        }
    }
}

pub fn set_stack_rlimit(soft: Option<u64>) -> io::Result<()> {
    unsafe {
        let mut rl = libc::rlimit {
            rlim_cur: 0,
            rlim_max: 0,
        };
        if libc::getrlimit(libc::RLIMIT_STACK, &mut rl) != 0 {
            return Err(io::Error::last_os_error());
        }
        rl.rlim_cur = match soft {
            Some(v) => {
                if rl.rlim_max != libc::RLIM_INFINITY && v > rl.rlim_max {
                    rl.rlim_max
                } else {
                    v
                }
            }
            None => rl.rlim_max,
        };
        if libc::setrlimit(libc::RLIMIT_STACK, &rl) != 0 {
            return Err(io::Error::last_os_error());
        }
    }
    Ok(())
}

pub fn get_stack_rlimit() -> u64 {
    unsafe {
        let mut rl = libc::rlimit {
            rlim_cur: 0,
            rlim_max: 0,
        };
        libc::getrlimit(libc::RLIMIT_STACK, &mut rl);
        rl.rlim_cur
    }
}

pub fn arg_max() -> u64 {
    unsafe { libc::sysconf(libc::_SC_ARG_MAX) as u64 }
}

/// Replace the whole environment of this process.
pub fn set_environment(env: &[(String, String)]) {
    let keys: Vec<OsString> = std::env::vars_os().map(|(k, _)| k).collect();
    for k in keys {
        std::env::remove_var(k);
    }
    for (k, v) in env {
        std::env::set_var(k, v);
    }
}

/// Bytes the environment occupies as the kernel counts strings ("K=V\0").
pub fn env_string_bytes(env: &[(String, String)]) -> usize {
    env.iter().map(|(k, v)| k.len() + v.len() + 2).sum()
}

/// Drop from root to nobody so that permission bits are real faults.
/// Returns true when the process now runs unprivileged.
pub fn drop_privileges() -> bool {
    unsafe {
        if libc::geteuid() != 0 {
            return true;
        }
        if libc::setgroups(0, std::ptr::null()) != 0 {
            return false;
        }
        if libc::setresgid(65534, 65534, 65534) != 0 {
            return false;
        }
        if libc::setresuid(65534, 65534, 65534) != 0 {
            return false;
        }
        // a process that changed uid is not dumpable; irrelevant here
        libc::geteuid() != 0
    }
}

pub fn is_root() -> bool {
    unsafe { libc::geteuid() == 0 }
}

/// Remove a tree regardless of the permission bits inside it.
pub fn wipe(path: &Path) {
    fn rec(p: &Path) {
        let Ok(md) = fs::symlink_metadata(p) else {
            return;
        };
        if md.is_dir() {
            let _ = fs::set_permissions(p, fs::Permissions::from_mode(0o700));
            if let Ok(rd) = fs::read_dir(p) {
                for e in rd.flatten() {
                    rec(&e.path());
                }
            }
            let _ = fs::remove_dir(p);
        } else {
            let _ = fs::remove_file(p);
        }
    }
    rec(path);
    // paths beyond PATH_MAX defeat the above: descend with chdir instead
    if fs::symlink_metadata(path).is_ok() {
        if let (Some(parent), Some(name)) = (path.parent(), path.file_name()) {
            let back = std::env::current_dir().ok();
            wipe_deep(parent, name);
            if let Some(b) = back {
                let _ = std::env::set_current_dir(b);
            }
        }
    }
}

/// Remove `parent/name` recursively without ever naming a path longer than one component:
/// descends with chdir. Leaves the process in `parent`.
pub fn wipe_deep(parent: &Path, name: &OsStr) {
    fn rec(name: &OsStr) {
        let Ok(md) = fs::symlink_metadata(name) else { return };
        if md.is_dir() {
            let _ = fs::set_permissions(name, fs::Permissions::from_mode(0o700));
            if std::env::set_current_dir(name).is_ok() {
                if let Ok(rd) = fs::read_dir(".") {
                    let names: Vec<OsString> = rd.flatten().map(|e| e.file_name()).collect();
                    for n in names {
                        rec(&n);
                    }
                }
                let _ = std::env::set_current_dir("..");
            }
            let _ = fs::remove_dir(name);
        } else {
            let _ = fs::remove_file(name);
        }
    }
    if std::env::set_current_dir(parent).is_ok() {
        rec(name);
    }
}

/// Remove everything inside `dir` but keep `dir`.
pub fn wipe_contents(dir: &Path) {
    if let Ok(rd) = fs::read_dir(dir) {
        for e in rd.flatten() {
            wipe(&e.path());
        }
    }
}

pub fn scratch_base() -> PathBuf {
    let shm = Path::new("/dev/shm");
    if shm.is_dir() {
        shm.to_path_buf()
    } else {
        std::env::temp_dir()
    }
}

pub fn os(bytes: &[u8]) -> &OsStr {
    OsStr::from_bytes(bytes)
}

pub fn lossy(bytes: &[u8]) -> String {
    String::from_utf8_lossy(bytes).into_owned()
}

/// Printable rendering of a byte string for reports.
pub fn show(bytes: &[u8]) -> String {
    let mut s = String::new();
    for &b in bytes {
        match b {
            b'\\' => s.push_str("\\\\"),
            b'\n' => s.push_str("\\n"),
            b'\t' => s.push_str("\\t"),
            0 => s.push_str("\\0"),
            0x20..=0x7e => s.push(b as char),
            _ => s.push_str(&format!("\\x{:02x}", b)),
        }
    }
    s
}

pub fn set_mtime_atime(path: &Path, atime_ns: i128, mtime_ns: i128) -> io::Result<()> {
    let c = CString::new(path.as_os_str().as_bytes()).unwrap();
    let ts = |ns: i128| libc::timespec {
        tv_sec: ns.div_euclid(1_000_000_000) as i64,
        tv_nsec: ns.rem_euclid(1_000_000_000) as i64,
    };
    let times = [ts(atime_ns), ts(mtime_ns)];
    let r = unsafe {
        libc::utimensat(
            libc::AT_FDCWD,
            c.as_ptr(),
            times.as_ptr(),
            libc::AT_SYMLINK_NOFOLLOW,
        )
    };
    if r != 0 {
        return Err(io::Error::last_os_error());
    }
    Ok(())
}

/// Make fd 0 of this process a pipe that holds `marker` followed by end of file.
pub fn stdin_marker(marker: &[u8]) {
    unsafe {
        let mut fds = [0i32; 2];
        if libc::pipe(fds.as_mut_ptr()) != 0 {
            return;
        }
        let _ = libc::write(fds[1], marker.as_ptr() as *const libc::c_void, marker.len());
        libc::close(fds[1]);
        libc::dup2(fds[0], 0);
        libc::close(fds[0]);
    }
}

/// fd 0 back to /dev/null.
pub fn stdin_devnull() {
    unsafe {
        let fd = libc::open(b"/dev/null\0".as_ptr() as *const libc::c_char, libc::O_RDONLY);
        if fd >= 0 {
            libc::dup2(fd, 0);
            libc::close(fd);
        }
    }
}

/// Temporary capture of one of the process's descriptors (stdout of an in-process run) in a
/// memfd; `finish` puts the original descriptor back and returns what was written.
pub struct FdCapture {
    fd: i32,
    saved: i32,
    target: i32,
}

impl FdCapture {
    pub fn install(target: i32) -> Option<FdCapture> {
        unsafe {
            let name = CString::new("fusim-capture").unwrap();
            let fd = libc::memfd_create(name.as_ptr(), 0);
            if fd < 0 {
                return None;
            }
            let saved = libc::dup(target);
            if saved < 0 {
                libc::close(fd);
                return None;
            }
            libc::fcntl(saved, libc::F_SETFD, libc::FD_CLOEXEC);
            if libc::dup2(fd, target) < 0 {
                libc::close(fd);
                libc::close(saved);
                return None;
            }
            Some(FdCapture { fd, saved, target })
        }
    }

    pub fn finish(self) -> Vec<u8> {
        unsafe {
            libc::dup2(self.saved, self.target);
            libc::close(self.saved);
            let end = libc::lseek(self.fd, 0, libc::SEEK_END);
            let mut buf = vec![0u8; end.max(0) as usize];
            let mut off = 0usize;
            while off < buf.len() {
                let n = libc::pread(self.fd, buf[off..].as_mut_ptr() as *mut libc::c_void, buf.len() - off, off as i64);
                if n <= 0 {
                    break;
                }
                off += n as usize;
            }
            buf.truncate(off);
            libc::close(self.fd);
            buf
        }
    }
}
