//! Scratch trees on the real file system: build, snapshot, reference walk.

use std::collections::BTreeMap;
use std::ffi::CString;
use std::fs;
use std::io;
use std::os::unix::ffi::OsStrExt;
use std::os::unix::fs::{symlink, MetadataExt, PermissionsExt};
use std::path::{Path, PathBuf};

use serde::{Deserialize, Serialize};

#[derive(Clone, Debug, PartialEq, Eq, Serialize, Deserialize)]
pub enum Node {
    Dir {
        path: String,
    },
    File {
        path: String,
        size: u64,
        /// first bytes of the content, to tell files apart in snapshots
        token: u32,
        /// None = leave whatever creation gave
        atime_ns: Option<i64>,
        mtime_ns: Option<i64>,
    },
    Symlink {
        path: String,
        target: String,
    },
    Fifo {
        path: String,
    },
}

impl Node {
    pub fn path(&self) -> &str {
        match self {
            Node::Dir { path } | Node::File { path, .. } | Node::Symlink { path, .. } | Node::Fifo { path } => path,
        }
    }
    pub fn set_path(&mut self, p: String) {
        match self {
            Node::Dir { path } | Node::File { path, .. } | Node::Symlink { path, .. } | Node::Fifo { path } => *path = p,
        }
    }
}

#[derive(Clone, Debug, Default, PartialEq, Eq, Serialize, Deserialize)]
pub struct TreeSpec {
    /// created in this order (parents before children)
    pub nodes: Vec<Node>,
    /// (path, mode) applied after everything exists, in this order
    pub chmods: Vec<(String, u32)>,
    /// every RAW_SENTINEL character in a path or link target stands for this single byte on
    /// disk: names that are not valid UTF-8 (the specification itself stays valid JSON)
    #[serde(default)]
    pub raw_byte: Option<u8>,
    /// many entries of one kind in one directory, created after `nodes` (names `b00000`, …):
    /// exact counts such as 256 or 65536 without a specification of megabytes
    #[serde(default)]
    pub bulk: Vec<Bulk>,
}

#[derive(Clone, Debug, PartialEq, Eq, Serialize, Deserialize)]
pub struct Bulk {
    /// existing directory (a path of `nodes`)
    pub dir: String,
    pub count: usize,
    pub kind: BulkKind,
}

#[derive(Clone, Copy, Debug, PartialEq, Eq, Serialize, Deserialize)]
pub enum BulkKind {
    /// empty regular files
    File,
    /// directories with mode 000: each one cannot be read
    Dir000,
    /// symbolic links that point at themselves: each one cannot be resolved
    SelfLink,
    /// directories holding one file each: none of them can be removed by rmdir
    DirWithFile,
}

pub fn bulk_name(i: usize) -> String {
    format!("b{i:05}")
}

/// Private-use character standing for `TreeSpec::raw_byte` in names.
pub const RAW_SENTINEL: char = '\u{f8ff}';

/// The bytes a specified path has on disk.
pub fn disk_bytes(raw: Option<u8>, s: &str) -> Vec<u8> {
    let Some(b) = raw else {
        return s.as_bytes().to_vec();
    };
    let mut out = Vec::with_capacity(s.len());
    for c in s.chars() {
        if c == RAW_SENTINEL {
            out.push(b);
        } else {
            let mut buf = [0u8; 4];
            out.extend_from_slice(c.encode_utf8(&mut buf).as_bytes());
        }
    }
    out
}

/// Undo `to_string_lossy` on a printed path of a tree whose only invalid byte is `raw`
/// (each such byte is printed as one U+FFFD, and U+FFFD occurs in no generated name).
pub fn unlossy(raw: Option<u8>, printed: &[u8]) -> Vec<u8> {
    let Some(b) = raw else {
        return printed.to_vec();
    };
    let mut out = Vec::with_capacity(printed.len());
    let mut i = 0;
    while i < printed.len() {
        if printed[i..].starts_with(&[0xef, 0xbf, 0xbd]) {
            out.push(b);
            i += 3;
        } else {
            out.push(printed[i]);
            i += 1;
        }
    }
    out
}

fn disk_path(root: &Path, raw: Option<u8>, rel: &str) -> PathBuf {
    use std::os::unix::ffi::OsStringExt;
    root.join(std::ffi::OsString::from_vec(disk_bytes(raw, rel)))
}

impl TreeSpec {
    /// Drop node `i` and everything beneath it; fix up chmods.
    pub fn without(&self, i: usize) -> TreeSpec {
        let p = self.nodes[i].path().to_string();
        let pre = format!("{p}/");
        let keep = |q: &str| q != p && !q.starts_with(&pre);
        TreeSpec {
            nodes: self.nodes.iter().filter(|n| keep(n.path())).cloned().collect(),
            chmods: self.chmods.iter().filter(|(q, _)| keep(q)).cloned().collect(),
            raw_byte: self.raw_byte,
            bulk: self.bulk.iter().filter(|b| keep(&b.dir)).cloned().collect(),
        }
    }
}

pub fn set_times(path: &Path, atime_ns: Option<i64>, mtime_ns: Option<i64>) -> io::Result<()> {
    let c = CString::new(path.as_os_str().as_bytes()).unwrap();
    let ts = |ns: Option<i64>| match ns {
        Some(ns) => libc::timespec {
            tv_sec: ns.div_euclid(1_000_000_000),
            tv_nsec: ns.rem_euclid(1_000_000_000),
        },
        None => libc::timespec {
            tv_sec: 0,
            tv_nsec: libc::UTIME_OMIT,
        },
    };
    let times = [ts(atime_ns), ts(mtime_ns)];
    let r = unsafe { libc::utimensat(libc::AT_FDCWD, c.as_ptr(), times.as_ptr(), libc::AT_SYMLINK_NOFOLLOW) };
    if r != 0 {
        return Err(io::Error::last_os_error());
    }
    Ok(())
}

/// Build `spec` under `root` (which must exist and be empty).
pub fn build(root: &Path, spec: &TreeSpec) -> io::Result<()> {
    for n in &spec.nodes {
        let p = disk_path(root, spec.raw_byte, n.path());
        match n {
            Node::Dir { .. } => fs::create_dir(&p)?,
            Node::File {
                size,
                token,
                atime_ns,
                mtime_ns,
                ..
            } => {
                let mut content = token.to_le_bytes().to_vec();
                content.truncate(*size as usize);
                let f = fs::File::create(&p)?;
                if !content.is_empty() {
                    use std::io::Write;
                    (&f).write_all(&content)?;
                }
                if *size > content.len() as u64 {
                    f.set_len(*size)?; // sparse
                }
                drop(f);
                if atime_ns.is_some() || mtime_ns.is_some() {
                    set_times(&p, *atime_ns, *mtime_ns)?;
                }
            }
            Node::Symlink { target, .. } => {
                use std::os::unix::ffi::OsStringExt;
                symlink(std::ffi::OsString::from_vec(disk_bytes(spec.raw_byte, target)), &p)?
            }
            Node::Fifo { .. } => {
                let c = CString::new(p.as_os_str().as_bytes()).unwrap();
                if unsafe { libc::mkfifo(c.as_ptr(), 0o644) } != 0 {
                    return Err(io::Error::last_os_error());
                }
            }
        }
    }
    for b in &spec.bulk {
        let dir = disk_path(root, spec.raw_byte, &b.dir);
        for i in 0..b.count {
            let p = dir.join(bulk_name(i));
            match b.kind {
                BulkKind::File => {
                    fs::File::create(&p)?;
                }
                BulkKind::Dir000 => {
                    fs::create_dir(&p)?;
                    fs::set_permissions(&p, fs::Permissions::from_mode(0))?;
                }
                BulkKind::SelfLink => symlink(bulk_name(i), &p)?,
                BulkKind::DirWithFile => {
                    fs::create_dir(&p)?;
                    fs::File::create(p.join("keep"))?;
                }
            }
        }
    }
    for (p, mode) in &spec.chmods {
        fs::set_permissions(disk_path(root, spec.raw_byte, p), fs::Permissions::from_mode(*mode))?;
    }
    Ok(())
}

/// Everything observable about a tree: path -> description.
pub fn snapshot(root: &Path) -> BTreeMap<String, String> {
    fn rec(root: &Path, rel: &Path, out: &mut BTreeMap<String, String>) {
        let p = root.join(rel);
        let Ok(md) = fs::symlink_metadata(&p) else {
            return;
        };
        let ft = md.file_type();
        let key = rel.to_string_lossy().into_owned();
        let desc = if ft.is_symlink() {
            format!("l -> {}", fs::read_link(&p).map(|t| t.to_string_lossy().into_owned()).unwrap_or_default())
        } else if ft.is_dir() {
            format!("d {:o}", md.mode() & 0o7777)
        } else if ft.is_file() {
            let head = fs::read(&p).map(|b| b[..b.len().min(4)].to_vec()).unwrap_or_default();
            format!("f {:o} size={} head={:?} nlink={}", md.mode() & 0o7777, md.len(), head, md.nlink())
        } else {
            format!("o {:o}", md.mode() & 0o7777)
        };
        if !key.is_empty() {
            out.insert(key, desc);
        }
        if ft.is_dir() {
            // make it listable for the snapshot, then restore
            let mode = md.mode() & 0o7777;
            let restricted = mode & 0o500 != 0o500;
            if restricted {
                let _ = fs::set_permissions(&p, fs::Permissions::from_mode(mode | 0o500));
            }
            if let Ok(rd) = fs::read_dir(&p) {
                let mut names: Vec<_> = rd.flatten().map(|e| e.file_name()).collect();
                names.sort();
                for n in names {
                    rec(root, &rel.join(n), out);
                }
            }
            if restricted {
                let _ = fs::set_permissions(&p, fs::Permissions::from_mode(mode));
            }
        }
    }
    let mut out = BTreeMap::new();
    rec(root, Path::new(""), &mut out);
    out
}

#[derive(Clone, Copy, Debug, PartialEq, Eq, Serialize, Deserialize)]
pub enum FollowMode {
    P,
    H,
    L,
}

#[derive(Clone, Debug, Default)]
pub struct RefWalk {
    /// entries that must be evaluated exactly once: (path as printed, depth)
    pub must: Vec<(String, usize)>,
    /// entries on which the statement leaves room (may appear 0 or 1 times)
    pub may: Vec<String>,
    /// path prefixes below which nothing is demanded (affected subtrees)
    pub open_below: Vec<String>,
    /// a diagnostic and a non-zero status are owed
    pub diag_owed: bool,
    /// a diagnostic is permitted though not owed
    pub diag_allowed: bool,
    /// post-order position is needed by callers that check order
    pub loops: usize,
    pub unreadable_dirs: usize,
    pub dangling_links: usize,
    pub followed_links: usize,
}

/// Join like find prints: no doubled slash after a starting point that ends
/// in one.
pub fn join_print(parent: &str, name: &str) -> String {
    if parent.ends_with('/') {
        format!("{parent}{name}")
    } else {
        format!("{parent}/{name}")
    }
}

pub struct WalkCfg {
    pub follow: FollowMode,
    pub mindepth: usize,
    pub maxdepth: usize,
    /// directories are reported after their contents
    pub depth_first: bool,
    /// siblings in byte-wise name order
    pub sorted: bool,
}

/// Independent reference walk from the statement of C02 (lstat/stat/readdir
/// only). `cwd` is where relative starting points are resolved.
pub fn ref_walk(cwd: &Path, start: &str, cfg: &WalkCfg, out: &mut RefWalk) {
    // `shown` is the path as find prints it (lossy for names that are not valid UTF-8, like
    // find's own output); `real` is the path the system calls get.
    fn walk(
        real: &Path,
        shown: &str,
        depth: usize,
        cfg: &WalkCfg,
        ancestors: &mut Vec<(u64, u64)>,
        out: &mut RefWalk,
    ) {
        let lst = match fs::symlink_metadata(real) {
            Ok(m) => m,
            Err(_) => {
                // cannot even be examined: diagnostic owed, entry not demanded
                out.diag_owed = true;
                out.may.push(shown.to_string());
                return;
            }
        };
        let follow_here = match cfg.follow {
            FollowMode::P => false,
            FollowMode::H => depth == 0,
            FollowMode::L => true,
        };
        let in_range = depth >= cfg.mindepth && depth <= cfg.maxdepth;
        let is_link = lst.file_type().is_symlink();
        let st = if is_link && follow_here {
            match fs::metadata(real) {
                Ok(m) => {
                    out.followed_links += 1;
                    m
                }
                Err(e) => {
                    let raw = e.raw_os_error();
                    if raw == Some(libc::ENOENT) || raw == Some(libc::ENOTDIR) {
                        // dangling: still visited, as a link
                        out.dangling_links += 1;
                        if in_range {
                            out.must.push((shown.to_string(), depth));
                        }
                    } else {
                        // ELOOP, EACCES on the way: diagnosed; visiting it is open
                        out.diag_owed = true;
                        if in_range {
                            out.may.push(shown.to_string());
                        }
                    }
                    return;
                }
            }
        } else {
            lst.clone()
        };
        if !st.is_dir() {
            if in_range {
                out.must.push((shown.to_string(), depth));
            }
            return;
        }
        let id = (st.dev(), st.ino());
        if is_link && follow_here && ancestors.contains(&id) {
            // closes a directory cycle: diagnosed, never followed
            out.loops += 1;
            out.diag_owed = true;
            if in_range {
                out.may.push(shown.to_string());
            }
            return;
        }
        if in_range && !cfg.depth_first {
            out.must.push((shown.to_string(), depth));
        }
        if depth < cfg.maxdepth {
            match fs::read_dir(real) {
                Err(_) => {
                    out.unreadable_dirs += 1;
                    out.diag_owed = true;
                    out.open_below.push(shown.to_string());
                }
                Ok(rd) => {
                    let mut names: Vec<std::ffi::OsString> = rd.flatten().map(|e| e.file_name()).collect();
                    if cfg.sorted {
                        names.sort_by(|a, b| a.as_bytes().cmp(b.as_bytes()));
                    }
                    // searchable? (mode without x: names known, entries cannot be examined)
                    let searchable = names.is_empty()
                        || fs::symlink_metadata(real.join(&names[0])).is_ok()
                        || fs::symlink_metadata(real.join(&names[0]))
                            .err()
                            .and_then(|e| e.raw_os_error())
                            != Some(libc::EACCES);
                    if !searchable {
                        out.unreadable_dirs += 1;
                        out.diag_allowed = true;
                        out.open_below.push(shown.to_string());
                    } else {
                        ancestors.push(id);
                        for n in names {
                            walk(&real.join(&n), &join_print(shown, &n.to_string_lossy()), depth + 1, cfg, ancestors, out);
                        }
                        ancestors.pop();
                    }
                }
            }
        }
        if in_range && cfg.depth_first {
            out.must.push((shown.to_string(), depth));
        }
    }
    if start.is_empty() {
        // the empty string names nothing (ENOENT): diagnosed, nothing walked in its place
        out.diag_owed = true;
        return;
    }
    let mut anc = vec![];
    walk(&cwd.join(start), start, 0, cfg, &mut anc, out);
}
