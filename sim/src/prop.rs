//! What every property check has in common.

use std::collections::BTreeMap;

use serde::de::DeserializeOwned;
use serde::Serialize;
use serde_json::Value;

use crate::ctx::Ctx;
use crate::rng::{Fnv, Rng};

#[derive(Clone, Copy, Debug, PartialEq, Eq)]
pub enum Tier {
    Quick,
    Thorough,
}

impl Tier {
    pub fn name(self) -> &'static str {
        match self {
            Tier::Quick => "quick",
            Tier::Thorough => "thorough",
        }
    }
    pub fn parse(s: &str) -> Option<Tier> {
        match s {
            "quick" => Some(Tier::Quick),
            "thorough" => Some(Tier::Thorough),
            _ => None,
        }
    }
}

#[derive(Clone, Debug, Serialize, serde::Deserialize)]
pub struct Violation {
    /// oracle clause that failed, e.g. `C05.spurious-empty-argument`
    pub class: String,
    pub detail: String,
}

/// What one simulated run produced besides its verdict.
pub struct Report {
    pub violation: Option<Violation>,
    pub faults: BTreeMap<&'static str, u64>,
    pub probes: BTreeMap<&'static str, u64>,
    pub trace: Fnv,
    pub steps: u64,
    pub executions: u64,
    pub sim_time_s: f64,
    pub want_sample: bool,
    pub sample: Option<Value>,
}

impl Report {
    pub fn new(want_sample: bool) -> Report {
        Report {
            violation: None,
            faults: BTreeMap::new(),
            probes: BTreeMap::new(),
            trace: Fnv::new(),
            steps: 0,
            executions: 0,
            sim_time_s: 0.0,
            want_sample,
            sample: None,
        }
    }
    pub fn fault(&mut self, k: &'static str) {
        *self.faults.entry(k).or_insert(0) += 1;
    }
    pub fn fault_n(&mut self, k: &'static str, n: u64) {
        if n > 0 {
            *self.faults.entry(k).or_insert(0) += n;
        }
    }
    pub fn probe(&mut self, k: &'static str) {
        *self.probes.entry(k).or_insert(0) += 1;
    }
    pub fn probe_n(&mut self, k: &'static str, n: u64) {
        if n > 0 {
            *self.probes.entry(k).or_insert(0) += n;
        }
    }
    /// Record a violation (the first one wins).
    pub fn fail(&mut self, class: impl Into<String>, detail: impl Into<String>) {
        if self.violation.is_none() {
            let mut detail: String = detail.into();
            if detail.len() > 20_000 {
                // (a command line of megabytes does not belong in a report)
                let cut = (0..=20_000).rev().find(|i| detail.is_char_boundary(*i)).unwrap_or(0);
                detail.truncate(cut);
                detail.push_str(" …(truncated)");
            }
            self.violation = Some(Violation {
                class: class.into(),
                detail,
            });
        }
    }
    pub fn nontrivial(&self) -> bool {
        !self.faults.is_empty() || !self.probes.is_empty()
    }
}

pub trait Property {
    const ID: &'static str;
    type Sc: Serialize + DeserializeOwned + Clone + Send + 'static;

    /// seed -> scenario; the only consumer of randomness.
    fn generate(rng: &mut Rng, tier: Tier) -> Self::Sc;
    /// Execute the scenario against the real code and judge it.
    fn check(sc: &Self::Sc, ctx: &mut Ctx, rep: &mut Report);
    /// Strictly simpler variants of `sc`, most aggressive first.
    fn shrink(sc: &Self::Sc) -> Vec<Self::Sc>;

    /// Runs for the tier: (number of seeded runs, extra exhaustive items).
    fn budget(tier: Tier) -> u64;
    /// Exhaustive small-scope sweep items appended after the seeded runs
    /// (index -> scenario); 0 items by default.
    fn sweep_len(_tier: Tier) -> u64 {
        0
    }
    fn sweep_item(_i: u64) -> Option<Self::Sc> {
        None
    }

    fn wants_unprivileged() -> bool {
        false
    }
    /// Seconds a single run may take before the watchdog calls it a hang.
    fn hang_limit_s() -> u64 {
        // (the heaviest ordinary runs - a directory of 65 536 files, 70 000 invocations - take
        // one or two seconds on an idle machine: a wide margin for a loaded one)
        60
    }
    fn rule() -> &'static str;
    fn components() -> Value;
    fn assumptions() -> Vec<&'static str>;
    fn level() -> &'static str {
        "exploration"
    }
    /// The same scenario through the in-process seams and through the real executables
    /// (`bins` holds `find` and `xargs` built from /repo with the hooks feature off).
    fn crosscheck(_sc: &Self::Sc, _ctx: &mut Ctx, _bins: &std::path::Path) -> crate::crosscheck::Xc {
        crate::crosscheck::Xc::NotComparable
    }
    /// A few fixed scenarios that every cross-check runs besides the seeded ones (what the
    /// executables do differently from the library shows best on big outputs).
    fn crosscheck_extras() -> Vec<Self::Sc> {
        vec![]
    }
}
