//! The simulated outside world: input stream, output sink, child processes.
//! Executing never consults a PRNG; every choice is in the scenario.

use std::cell::RefCell;
use std::io::{self, Read, Write};
use std::os::unix::ffi::OsStrExt;
use std::os::unix::process::ExitStatusExt;
use std::process::ExitStatus;
use std::rc::Rc;

use findutils::verif_hooks::{SpawnRequest, World};
use serde::{Deserialize, Serialize};

use crate::sys::show;

/// Byte string that serialises as an escaped, human-readable JSON string.
#[derive(Clone, Debug, PartialEq, Eq, PartialOrd, Ord, Hash, Default)]
pub struct B(pub Vec<u8>);

impl B {
    pub fn s(s: &str) -> B {
        B(s.as_bytes().to_vec())
    }
}

impl Serialize for B {
    fn serialize<S: serde::Serializer>(&self, s: S) -> Result<S::Ok, S::Error> {
        s.serialize_str(&show(&self.0))
    }
}

pub fn unshow(s: &str) -> Vec<u8> {
    let b = s.as_bytes();
    let mut out = Vec::with_capacity(b.len());
    let mut i = 0;
    while i < b.len() {
        if b[i] == b'\\' && i + 1 < b.len() {
            match b[i + 1] {
                b'\\' => {
                    out.push(b'\\');
                    i += 2;
                }
                b'n' => {
                    out.push(b'\n');
                    i += 2;
                }
                b't' => {
                    out.push(b'\t');
                    i += 2;
                }
                b'0' => {
                    out.push(0);
                    i += 2;
                }
                b'x' if i + 3 < b.len() => {
                    let h = std::str::from_utf8(&b[i + 2..i + 4]).unwrap_or("3f");
                    out.push(u8::from_str_radix(h, 16).unwrap_or(b'?'));
                    i += 4;
                }
                _ => {
                    out.push(b[i]);
                    i += 1;
                }
            }
        } else {
            out.push(b[i]);
            i += 1;
        }
    }
    out
}

impl<'de> Deserialize<'de> for B {
    fn deserialize<D: serde::Deserializer<'de>>(d: D) -> Result<B, D::Error> {
        let s = String::deserialize(d)?;
        Ok(B(unshow(&s)))
    }
}

/// One step of a read plan.
#[derive(Clone, Debug, PartialEq, Eq, Serialize, Deserialize)]
pub enum ReadOp {
    /// Deliver at most this many bytes (never more than asked or available).
    Data(usize),
    /// Deliver bytes up to (not beyond) this absolute stream offset; stays in
    /// force until the offset is reached, so cut positions are exact whatever
    /// buffer size the reader uses.
    Cut(usize),
    /// Fail with EINTR; the data is still there on the next call.
    Intr,
    /// Fail with this errno, now and on every later call.
    Err(i32),
}

/// One step of a write plan for the output sink.
#[derive(Clone, Debug, PartialEq, Eq, Serialize, Deserialize)]
pub enum WriteOp {
    /// Accept at most this many bytes (at least 1).
    Accept(usize),
    /// Fail with EINTR, nothing accepted.
    Intr,
}

/// Scripted outcome of one child process.
#[derive(Clone, Debug, PartialEq, Eq, Serialize, Deserialize)]
pub enum Outcome {
    Exit(i32),
    Signal(i32, bool),
    SpawnErr(i32),
    /// Run the real command.
    Real,
}

impl Outcome {
    pub fn class(&self) -> &'static str {
        match self {
            Outcome::Exit(0) => "exit0",
            Outcome::Exit(255) => "exit255",
            Outcome::Exit(_) => "exitN",
            Outcome::Signal(..) => "signal",
            Outcome::SpawnErr(e) if *e == libc::ENOENT => "enoent",
            Outcome::SpawnErr(_) => "spawnerr",
            Outcome::Real => "real",
        }
    }
}

#[derive(Clone, Debug, PartialEq, Eq, Serialize)]
pub enum ReadGot {
    Data(usize),
    Intr,
    Err(i32),
    Eof,
}

#[derive(Clone, Debug, PartialEq, Eq, Serialize)]
pub enum Event {
    Read {
        asked: usize,
        got: ReadGot,
    },
    Spawn {
        argv: Vec<B>,
        cwd: Option<B>,
        outcome: Outcome,
        /// status the real child returned, when passed through
        real_status: Option<i32>,
    },
    Write {
        len: usize,
        accepted: Option<usize>,
    },
    Flush,
    Mutate {
        op: String,
        path: B,
        ok: bool,
    },
}

#[derive(Default)]
pub struct Log {
    pub events: Vec<Event>,
    /// Everything the sink accepted, in order.
    pub sink: Vec<u8>,
    /// Offsets into `sink` at which a `write` call began, with the event index.
    pub budget_exhausted: bool,
    pub reads_after_eof: usize,
}

impl Log {
    pub fn spawns(&self) -> Vec<(&Vec<B>, &Option<B>, &Outcome)> {
        self.events
            .iter()
            .filter_map(|e| match e {
                Event::Spawn {
                    argv, cwd, outcome, ..
                } => Some((argv, cwd, outcome)),
                _ => None,
            })
            .collect()
    }
}

pub type SharedLog = Rc<RefCell<Log>>;

/// The byte source handed to xargs in place of stdin.
pub struct SimStream {
    pub data: Rc<Vec<u8>>,
    pub pos: usize,
    pub plan: Vec<ReadOp>,
    pub step: usize,
    pub log: SharedLog,
    pub sticky_err: Option<i32>,
    pub budget: usize,
}

impl Read for SimStream {
    fn read(&mut self, buf: &mut [u8]) -> io::Result<usize> {
        let mut log = self.log.borrow_mut();
        if self.budget == 0 {
            log.budget_exhausted = true;
            return Err(io::Error::from_raw_os_error(libc::EIO));
        }
        self.budget -= 1;
        if let Some(e) = self.sticky_err {
            log.events.push(Event::Read {
                asked: buf.len(),
                got: ReadGot::Err(e),
            });
            return Err(io::Error::from_raw_os_error(e));
        }
        let remaining = self.data.len() - self.pos;
        if remaining == 0 || buf.is_empty() {
            // Pending EINTRs before EOF are still delivered; errors too.
            if self.step < self.plan.len() {
                match self.plan[self.step] {
                    ReadOp::Intr => {
                        self.step += 1;
                        log.events.push(Event::Read {
                            asked: buf.len(),
                            got: ReadGot::Intr,
                        });
                        return Err(io::Error::from_raw_os_error(libc::EINTR));
                    }
                    ReadOp::Err(e) => {
                        self.step += 1;
                        self.sticky_err = Some(e);
                        log.events.push(Event::Read {
                            asked: buf.len(),
                            got: ReadGot::Err(e),
                        });
                        return Err(io::Error::from_raw_os_error(e));
                    }
                    ReadOp::Data(_) | ReadOp::Cut(_) => {
                        self.step = self.plan.len();
                    }
                }
            }
            if matches!(log.events.last(), Some(Event::Read { got: ReadGot::Eof, .. })) {
                log.reads_after_eof += 1;
            }
            log.events.push(Event::Read {
                asked: buf.len(),
                got: ReadGot::Eof,
            });
            return Ok(0);
        }
        loop {
            let op = if self.step < self.plan.len() {
                self.plan[self.step].clone()
            } else {
                ReadOp::Data(usize::MAX)
            };
            match op {
                ReadOp::Intr => {
                    self.step += 1;
                    log.events.push(Event::Read {
                        asked: buf.len(),
                        got: ReadGot::Intr,
                    });
                    return Err(io::Error::from_raw_os_error(libc::EINTR));
                }
                ReadOp::Err(e) => {
                    self.step += 1;
                    self.sticky_err = Some(e);
                    log.events.push(Event::Read {
                        asked: buf.len(),
                        got: ReadGot::Err(e),
                    });
                    return Err(io::Error::from_raw_os_error(e));
                }
                ReadOp::Cut(pos) => {
                    if pos <= self.pos {
                        self.step += 1;
                        continue;
                    }
                    let n = (pos - self.pos).min(buf.len()).min(remaining);
                    buf[..n].copy_from_slice(&self.data[self.pos..self.pos + n]);
                    self.pos += n;
                    if self.pos >= pos {
                        self.step += 1;
                    }
                    log.events.push(Event::Read {
                        asked: buf.len(),
                        got: ReadGot::Data(n),
                    });
                    return Ok(n);
                }
                ReadOp::Data(n) => {
                    if self.step < self.plan.len() {
                        self.step += 1;
                    }
                    let n = n.max(1).min(buf.len()).min(remaining);
                    buf[..n].copy_from_slice(&self.data[self.pos..self.pos + n]);
                    self.pos += n;
                    log.events.push(Event::Read {
                        asked: buf.len(),
                        got: ReadGot::Data(n),
                    });
                    return Ok(n);
                }
            }
        }
    }
}

/// find's standard output. `on_write` runs after each accepted write with the
/// index of the write event; the find harness uses it to drive the mutator.
pub struct SimSink {
    pub log: SharedLog,
    pub plan: Vec<WriteOp>,
    pub step: usize,
    pub budget: usize,
    pub hook: Option<Box<dyn FnMut(&SharedLog)>>,
}

impl Write for SimSink {
    fn write(&mut self, buf: &[u8]) -> io::Result<usize> {
        if self.budget == 0 {
            self.log.borrow_mut().budget_exhausted = true;
            return Err(io::Error::from_raw_os_error(libc::ENOSPC));
        }
        self.budget -= 1;
        let op = if self.step < self.plan.len() {
            let op = self.plan[self.step].clone();
            self.step += 1;
            op
        } else {
            WriteOp::Accept(usize::MAX)
        };
        match op {
            WriteOp::Intr => {
                self.log.borrow_mut().events.push(Event::Write {
                    len: buf.len(),
                    accepted: None,
                });
                Err(io::Error::from_raw_os_error(libc::EINTR))
            }
            WriteOp::Accept(n) => {
                let n = if buf.is_empty() {
                    0
                } else {
                    n.max(1).min(buf.len())
                };
                {
                    let mut log = self.log.borrow_mut();
                    log.sink.extend_from_slice(&buf[..n]);
                    log.events.push(Event::Write {
                        len: buf.len(),
                        accepted: Some(n),
                    });
                }
                if let Some(h) = self.hook.as_mut() {
                    h(&self.log);
                }
                Ok(n)
            }
        }
    }

    fn flush(&mut self) -> io::Result<()> {
        self.log.borrow_mut().events.push(Event::Flush);
        Ok(())
    }
}

pub fn fabricate(outcome: &Outcome) -> io::Result<ExitStatus> {
    match outcome {
        Outcome::Exit(c) => Ok(ExitStatus::from_raw((c & 0xff) << 8)),
        Outcome::Signal(s, core) => Ok(ExitStatus::from_raw((s & 0x7f) | if *core { 0x80 } else { 0 })),
        Outcome::SpawnErr(e) => Err(io::Error::from_raw_os_error(*e)),
        Outcome::Real => unreachable!(),
    }
}

pub struct SimWorld {
    pub log: SharedLog,
    pub outcomes: Vec<Outcome>,
    /// outcome of spawns beyond the script
    pub default_outcome: Outcome,
    pub spawn_count: usize,
    pub spawn_budget: usize,
    pub input: Option<SimStream>,
    /// Runs when a child "executes", before its outcome is returned.
    pub on_spawn: Option<Box<dyn FnMut(usize, &SpawnRequest)>>,
}

impl World for SimWorld {
    fn spawn(
        &mut self,
        req: &SpawnRequest,
        real: &mut dyn FnMut() -> io::Result<ExitStatus>,
    ) -> io::Result<ExitStatus> {
        let k = self.spawn_count;
        self.spawn_count += 1;
        if self.spawn_budget == 0 {
            self.log.borrow_mut().budget_exhausted = true;
            return Err(io::Error::from_raw_os_error(libc::EAGAIN));
        }
        self.spawn_budget -= 1;
        let outcome = self.outcomes.get(k).cloned().unwrap_or_else(|| self.default_outcome.clone());
        let mut argv = vec![B(req.program.as_bytes().to_vec())];
        argv.extend(req.args.iter().map(|a| B(a.as_bytes().to_vec())));
        let cwd = req
            .cwd
            .as_ref()
            .map(|p| B(p.as_os_str().as_bytes().to_vec()));
        if let Some(h) = self.on_spawn.as_mut() {
            h(k, req);
        }
        let (result, real_status) = match &outcome {
            Outcome::Real => {
                let r = real();
                let code = match &r {
                    Ok(st) => Some(st.into_raw()),
                    Err(e) => e.raw_os_error().map(|e| -e),
                };
                (r, code)
            }
            o => (fabricate(o), None),
        };
        self.log.borrow_mut().events.push(Event::Spawn {
            argv,
            cwd,
            outcome,
            real_status,
        });
        result
    }

    fn input(&mut self) -> Option<Box<dyn Read>> {
        self.input
            .take()
            .map(|s| Box::new(s) as Box<dyn Read>)
    }
}
