//! fusim — deterministic simulation with fault injection for uutils/findutils.
//!
//!   fusim check <ID> <quick|thorough>      run a property check (orchestrator)
//!   fusim replay <file>                    re-run one replay file exactly
//!   fusim worker ...                       (internal) one worker process
//!   fusim shrink <file> <out>              (internal) minimise a failing scenario
//!   fusim selftest determinism <ID> <n>    run n seeds twice in different processes

mod ambient;
mod crosscheck;
mod ctx;
mod driver;
mod fgen;
mod find;
mod tree;
mod prop;
mod props;
mod rng;
mod sys;
mod world;
mod xargs;
mod xgen;
mod xoracle;

use prop::Tier;

fn usage() -> ! {
    eprintln!("usage: fusim check <ID> <quick|thorough> | replay <file> | selftest determinism <ID> <n> | list");
    std::process::exit(2);
}

macro_rules! dispatch {
    ($id:expr, $f:ident ( $($arg:expr),* )) => {
        match $id {
            "C02" => driver::$f::<props::c02::C02>($($arg),*),
            "C04" => driver::$f::<props::c04::C04>($($arg),*),
            "C05" => driver::$f::<props::c05::C05>($($arg),*),
            "C06" => driver::$f::<props::c06::C06>($($arg),*),
            "C07" => driver::$f::<props::c07::C07>($($arg),*),
            "C08" => driver::$f::<props::c08::C08>($($arg),*),
            "C09" => driver::$f::<props::c09::C09>($($arg),*),
            "C10" => driver::$f::<props::c10::C10>($($arg),*),
            "C15" => driver::$f::<props::c15::C15>($($arg),*),
            "C19" => driver::$f::<props::c19::C19>($($arg),*),
            "C20" => driver::$f::<props::c20::C20>($($arg),*),
            other => {
                eprintln!("fusim: unknown property {other}");
                std::process::exit(2);
            }
        }
    };
}

fn main() {
    let args: Vec<String> = std::env::args().collect();
    if args.len() < 2 {
        usage();
    }
    let code = match args[1].as_str() {
        "list" => {
            for id in props::ALL {
                println!("{id}");
            }
            0
        }
        "check" => {
            if args.len() < 4 {
                usage();
            }
            let tier = Tier::parse(&args[3]).unwrap_or_else(|| usage());
            dispatch!(args[2].as_str(), orchestrate(tier))
        }
        "gen" => {
            if args.len() < 5 {
                usage();
            }
            let tier = Tier::parse(&args[3]).unwrap_or_else(|| usage());
            let i: u64 = args[4].parse().unwrap_or(0);
            dispatch!(args[2].as_str(), gen_main(tier, i))
        }
        "worker" => {
            let id = args[2].clone();
            dispatch!(id.as_str(), worker_main(&args[3..]))
        }
        "replay" => {
            if args.len() < 3 {
                usage();
            }
            let id = driver::replay_file_property(&args[2]);
            dispatch!(id.as_str(), replay_main(&args[2], args.get(3).map(|s| s.as_str())))
        }
        "shrink" => {
            if args.len() < 4 {
                usage();
            }
            let id = driver::replay_file_property(&args[2]);
            dispatch!(id.as_str(), shrink_main(&args[2], &args[3]))
        }
        "crosscheck" => {
            if args.len() < 4 {
                usage();
            }
            let n: u64 = args[3].parse().unwrap_or(200);
            dispatch!(args[2].as_str(), crosscheck_main(n))
        }
        "selftest" => {
            if args.len() < 5 || args[2] != "determinism" {
                usage();
            }
            let n: u64 = args[4].parse().unwrap_or(200);
            dispatch!(args[3].as_str(), determinism_main(n))
        }
        _ => usage(),
    };
    std::process::exit(code);
}
