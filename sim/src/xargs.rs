//! xargs under simulation: scenario, in-process executor, reference model.

use std::cell::RefCell;
use std::rc::Rc;

use serde::{Deserialize, Serialize};

use crate::ctx::{Ctx, RunStatus};
use crate::world::{Log, Outcome, ReadOp, SimStream, SimWorld, B};

#[derive(Clone, Debug, PartialEq, Eq, Serialize, Deserialize)]
pub enum Opt {
    N(usize),
    L(usize),
    S(usize),
    X,
    R,
    Null,
    /// -d with the operand spelled as given
    Delim(String),
    /// -I R
    ReplI(String),
    /// --replace[=R]
    ReplLong(Option<String>),
    /// -i
    ReplShort,
    /// anything else, verbatim (usage-error scenarios)
    Raw(Vec<String>),
    /// -t: echo every command line on stderr (must not change anything else)
    Verbose,
    /// -P N: accepted and ignored
    MaxProcs(usize),
    /// -a FILE: the arguments come from a file (the seam still supplies the bytes; the file
    /// exists with the same content). With it the children keep xargs' own standard input.
    ArgFile,
}

pub const ARG_FILE_NAME: &str = "xargs-arg-file";

#[derive(Clone, Debug, Serialize, Deserialize)]
pub struct XargsScenario {
    pub opts: Vec<Opt>,
    /// command and initial arguments (never empty)
    pub cmd: Vec<String>,
    pub input: B,
    pub read_plan: Vec<ReadOp>,
    pub outcomes: Vec<Outcome>,
    pub rlimit_stack: Option<u64>,
    /// None = leave the worker's (small, fixed) environment alone
    pub env: Option<Vec<(String, String)>>,
    /// pass-through mode: children are real processes (see `RealKind`)
    #[serde(default)]
    pub real: Option<RealKind>,
    pub note: String,
    /// a file named like the (bare) command exists in the current directory: it is not on
    /// PATH, so a command that cannot be found stays "not found"
    #[serde(default)]
    pub decoy_in_cwd: bool,
    /// no command on the command line: xargs' built-in echo prints every batch on its own
    /// standard output (`cmd` is then `["echo"]`, which is what the limits are charged with)
    #[serde(default)]
    pub echo_mode: bool,
    #[serde(default)]
    pub extra: XExtra,
}

/// Further dimensions of an xargs run (all off by default).
#[derive(Clone, Debug, Default, PartialEq, Eq, Serialize, Deserialize)]
pub struct XExtra {
    /// environment variables on top of the base environment (see `crate::ambient`)
    #[serde(default)]
    pub ambient: crate::ambient::Ambient,
    /// the argument stream is not simulated: xargs really opens and reads `-a FILE`
    /// (scenario must carry `Opt::ArgFile`, read plan is ignored)
    #[serde(default)]
    pub real_arg_file: Option<ArgFileKind>,
    /// run xargs_main on a thread of its own with this much stack (KiB): what a small
    /// `ulimit -s` gives the main thread of the executable
    #[serde(default)]
    pub stack_kib: Option<u32>,
    /// xargs runs in a working directory whose absolute path is about this many bytes long;
    /// a command spelled `./NAME` is then a link to /bin/true placed there (a relative command
    /// name must not cost more on the child's stack than its own bytes)
    #[serde(default)]
    pub long_cwd: Option<usize>,
}

#[derive(Clone, Debug, PartialEq, Eq, Serialize, Deserialize)]
pub enum ArgFileKind {
    /// an ordinary file in the scratch directory
    Regular,
    /// `/proc/thread-self/comm`: a regular file by its metadata, size 0, whose content is the
    /// thread's name plus a newline (`input` must be that: at most 15 bytes, no NUL, then LF)
    ProcComm,
}

/// What really runs in pass-through mode. `cmd[0]` of the scenario is then a
/// placeholder that the executor replaces.
#[derive(Clone, Debug, PartialEq, Eq, Serialize, Deserialize)]
pub enum RealKind {
    /// `simchild LOG SCRIPT initial-args…`: logs argv/cwd, ends as `outcomes` says
    Simchild,
    /// a path that does not exist
    Missing,
    /// an existing file without execute permission
    NotExecutable,
    /// `cmd[0]` is a real program, run as it is
    Program,
    /// like `Simchild`, but the command is given as a bare name and found through PATH: the
    /// last of two PATH directories holds it; with `shadowed` the first one holds a file of
    /// the same name that is not executable (the search goes on, as execvp's does)
    SimchildOnPath { shadowed: bool },
}

/// The bare command name used by `RealKind::SimchildOnPath`.
pub const PATH_CMD: &str = "fusim-path-cmd";

impl XargsScenario {
    pub fn argv(&self) -> Vec<String> {
        self.argv_with(&self.cmd)
    }

    pub fn argv_with(&self, cmd: &[String]) -> Vec<String> {
        let mut v = vec!["xargs".to_string()];
        for o in &self.opts {
            match o {
                Opt::N(n) => {
                    v.push("-n".into());
                    v.push(n.to_string());
                }
                Opt::L(n) => {
                    v.push("-L".into());
                    v.push(n.to_string());
                }
                Opt::S(n) => {
                    v.push("-s".into());
                    v.push(n.to_string());
                }
                Opt::X => v.push("-x".into()),
                Opt::R => v.push("-r".into()),
                Opt::Verbose => v.push("-t".into()),
                Opt::MaxProcs(n) => {
                    v.push("-P".into());
                    v.push(n.to_string());
                }
                Opt::ArgFile => {
                    v.push("-a".into());
                    if self.extra.real_arg_file == Some(ArgFileKind::ProcComm) {
                        v.push("/proc/thread-self/comm".into());
                    } else {
                        v.push(ARG_FILE_NAME.into());
                    }
                }
                Opt::Null => v.push("-0".into()),
                Opt::Delim(d) => {
                    v.push("-d".into());
                    v.push(d.clone());
                }
                Opt::ReplI(r) => {
                    v.push("-I".into());
                    v.push(r.clone());
                }
                Opt::ReplLong(None) => v.push("--replace".into()),
                Opt::ReplLong(Some(r)) => v.push(format!("--replace={r}")),
                Opt::ReplShort => v.push("-i".into()),
                Opt::Raw(xs) => v.extend(xs.iter().cloned()),
            }
        }
        if !self.echo_mode {
            v.extend(cmd.iter().cloned());
        }
        v
    }
}

pub struct XargsObs {
    pub status: RunStatus,
    pub log: Log,
    pub stderr: Vec<u8>,
    /// command and initial arguments actually used (placeholders resolved)
    pub cmd: Vec<String>,
    /// pass-through mode: what the real children logged (argv after LOG SCRIPT, cwd)
    pub child_log: Option<Vec<(Vec<Vec<u8>>, Vec<u8>)>>,
    /// pass-through mode: bytes each real child could read from its standard input
    pub child_stdin: Vec<usize>,
    /// echo mode: what xargs wrote to its own standard output
    pub stdout: Vec<u8>,
    /// how many extra environment variables the run had (see `crate::ambient`)
    pub ambient_env: usize,
}

impl XargsObs {
    /// argv of every child, program included.
    pub fn spawn_argvs(&self) -> Vec<Vec<Vec<u8>>> {
        self.log
            .spawns()
            .iter()
            .map(|(argv, _, _)| argv.iter().map(|b| b.0.clone()).collect())
            .collect()
    }
}

pub const READ_BUDGET: usize = 200_000;
pub const SPAWN_BUDGET: usize = 700_000;

/// Run xargs_main in-process with the scenario's world.
pub fn run_xargs(sc: &XargsScenario, ctx: &mut Ctx) -> XargsObs {
    run_xargs_with(sc, &sc.read_plan, ctx)
}

pub fn run_xargs_with(sc: &XargsScenario, plan: &[ReadOp], ctx: &mut Ctx) -> XargsObs {
    ctx.prepare_process(sc.rlimit_stack, sc.env.as_deref());
    let log = Rc::new(RefCell::new(Log::default()));
    let stream = SimStream {
        data: Rc::new(sc.input.0.clone()),
        pos: 0,
        plan: plan.to_vec(),
        step: 0,
        log: log.clone(),
        sticky_err: None,
        budget: READ_BUDGET,
    };
    let _ = std::env::set_current_dir(&ctx.scratch);
    if let Some(len) = sc.extra.long_cwd {
        if crate::find::enter_long_cwd(ctx, len).is_ok() {
            if let Some(name) = sc.cmd.first().and_then(|c| c.strip_prefix("./")) {
                let _ = std::os::unix::fs::symlink("/bin/true", name);
            }
        }
    }
    let arg_file = sc.opts.iter().any(|o| matches!(o, Opt::ArgFile));
    if arg_file {
        let _ = std::fs::write(ctx.scratch.join(ARG_FILE_NAME), &sc.input.0);
    }
    if sc.decoy_in_cwd && !sc.cmd.is_empty() && !sc.cmd[0].contains('/') {
        let _ = std::fs::write(ctx.scratch.join(&sc.cmd[0]), b"#!/bin/sh\nexit 0\n");
    } else if !sc.cmd.is_empty() && !sc.cmd[0].contains('/') {
        let _ = std::fs::remove_file(ctx.scratch.join(&sc.cmd[0]));
    }
    // pass-through mode: resolve the placeholder command
    let mut cmd = sc.cmd.clone();
    let mut log_path = None;
    let mut path_override: Option<String> = None;
    if let Some(kind) = &sc.real {
        let dir = ctx.scratch.join("x");
        crate::sys::wipe(&dir);
        let _ = std::fs::create_dir_all(&dir);
        match kind {
            RealKind::Simchild => {
                let lp = dir.join("child.log");
                let sp = dir.join("child.script");
                let mut script = String::new();
                for o in &sc.outcomes {
                    match o {
                        Outcome::Exit(c) => script.push_str(&format!("exit {c}\n")),
                        Outcome::Signal(s, _) => script.push_str(&format!("signal {s}\n")),
                        _ => script.push_str("exit 0\n"),
                    }
                }
                let _ = std::fs::write(&sp, script);
                let mut c = vec![
                    ctx.simchild.to_string_lossy().into_owned(),
                    lp.to_string_lossy().into_owned(),
                    sp.to_string_lossy().into_owned(),
                ];
                c.extend(sc.cmd.iter().skip(1).cloned());
                cmd = c;
                log_path = Some(lp);
            }
            RealKind::SimchildOnPath { shadowed } => {
                let lp = dir.join("child.log");
                let sp = dir.join("child.script");
                let mut script = String::new();
                for o in &sc.outcomes {
                    match o {
                        Outcome::Exit(c) => script.push_str(&format!("exit {c}\n")),
                        Outcome::Signal(s, _) => script.push_str(&format!("signal {s}\n")),
                        _ => script.push_str("exit 0\n"),
                    }
                }
                let _ = std::fs::write(&sp, script);
                let (p1, p2) = (dir.join("p1"), dir.join("p2"));
                let _ = std::fs::create_dir_all(&p1);
                let _ = std::fs::create_dir_all(&p2);
                let _ = std::os::unix::fs::symlink(&ctx.simchild, p2.join(PATH_CMD));
                if *shadowed {
                    use std::os::unix::fs::PermissionsExt;
                    let f = p1.join(PATH_CMD);
                    let _ = std::fs::write(&f, b"not a program\n");
                    let _ = std::fs::set_permissions(&f, std::fs::Permissions::from_mode(0o644));
                }
                path_override = Some(format!("{}:{}", p1.display(), p2.display()));
                let mut c = vec![PATH_CMD.to_string(), lp.to_string_lossy().into_owned(), sp.to_string_lossy().into_owned()];
                c.extend(sc.cmd.iter().skip(1).cloned());
                cmd = c;
                log_path = Some(lp);
            }
            RealKind::Program => {}
            RealKind::Missing => {
                cmd[0] = dir.join("no-such-command").to_string_lossy().into_owned();
            }
            RealKind::NotExecutable => {
                let p = dir.join("not-executable");
                let _ = std::fs::write(&p, b"#!/bin/sh\nexit 0\n");
                use std::os::unix::fs::PermissionsExt;
                let _ = std::fs::set_permissions(&p, std::fs::Permissions::from_mode(0o644));
                cmd[0] = p.to_string_lossy().into_owned();
            }
        }
    }
    let world = SimWorld {
        log: log.clone(),
        outcomes: if sc.real.is_some() {
            vec![]
        } else {
            sc.outcomes.clone()
        },
        default_outcome: if sc.real.is_some() {
            Outcome::Real
        } else {
            Outcome::Exit(0)
        },
        spawn_count: 0,
        spawn_budget: SPAWN_BUDGET,
        // with a real -a FILE the seam stays out of the way: xargs reads the file itself
        input: if sc.extra.real_arg_file.is_some() && arg_file { None } else { Some(stream) },
        on_spawn: None,
    };
    // real children: what is left on fd 0 of this process stands for xargs' own input stream
    // (the arguments themselves come through the seam); a child must not be able to read it
    // (with -a the children are meant to keep xargs' standard input)
    let probe_stdin = matches!(sc.real, Some(RealKind::Simchild) | Some(RealKind::SimchildOnPath { .. })) && !arg_file;
    if probe_stdin {
        crate::sys::stdin_marker(b"these bytes stand for xargs' own standard input\n");
    }
    let argv = sc.argv_with(&cmd);
    let capture = if sc.echo_mode { crate::sys::FdCapture::install(1) } else { None };
    let comm = sc.extra.real_arg_file == Some(ArgFileKind::ProcComm) && arg_file;
    let name: Vec<u8> = sc.input.0.iter().copied().take_while(|b| *b != b'\n' && *b != 0).take(15).collect();
    let guard = sc.extra.ambient.enter();
    let saved_path = path_override.as_ref().map(|p| {
        let old = std::env::var_os("PATH");
        std::env::set_var("PATH", p);
        old
    });
    let (status, stderr) = match sc.extra.stack_kib {
        None => ctx.run_guarded(Box::new(world), move || {
            let _name = if comm { Some(ThreadName::set(&name)) } else { None };
            let refs: Vec<&str> = argv.iter().map(|s| s.as_str()).collect();
            let st = findutils::xargs::xargs_main(&refs);
            use std::io::Write;
            let _ = std::io::stdout().flush();
            st
        }),
        Some(kib) => {
            // the world lives in a thread-local slot: install it on the small thread itself
            // (the world holds Rc handles; this thread only waits while the other one runs, so
            // they are never touched from two threads at once)
            struct AssertSend<T>(T);
            unsafe impl<T> Send for AssertSend<T> {}
            let mut out = None;
            let pack = AssertSend((&mut *ctx, &mut out, world, argv, name));
            std::thread::scope(|s| {
                std::thread::Builder::new()
                    .stack_size((kib as usize) << 10)
                    .spawn_scoped(s, move || {
                        let pack = pack;
                        let AssertSend((ctx_ref, out_ref, world, argv, name)) = pack;
                        *out_ref = Some(ctx_ref.run_guarded(Box::new(world), move || {
                            let _name = if comm { Some(ThreadName::set(&name)) } else { None };
                            let refs: Vec<&str> = argv.iter().map(|s| s.as_str()).collect();
                            let st = findutils::xargs::xargs_main(&refs);
                            use std::io::Write;
                            let _ = std::io::stdout().flush();
                            st
                        }));
                    })
                    .expect("small-stack thread")
                    .join()
                    .expect("small-stack thread ended");
            });
            out.expect("run result")
        }
    };
    if sc.extra.long_cwd.is_some() {
        crate::find::leave_long_cwd(ctx);
    }
    if let Some(old) = saved_path {
        match old {
            Some(v) => std::env::set_var("PATH", v),
            None => std::env::remove_var("PATH"),
        }
    }
    drop(guard);
    let stdout = capture.map(|c| c.finish()).unwrap_or_default();
    let log = Rc::try_unwrap(log)
        .map(|c| c.into_inner())
        .unwrap_or_else(|rc| std::mem::take(&mut *rc.borrow_mut()));
    let raw_log = log_path.map(|p| std::fs::read(p).unwrap_or_default());
    let child_stdin = raw_log.as_deref().map(parse_child_stdin).unwrap_or_default();
    let child_log = raw_log.map(|d| parse_child_log(&d));
    if probe_stdin {
        crate::sys::stdin_devnull();
    }
    XargsObs {
        status,
        log,
        stderr,
        cmd,
        child_log,
        child_stdin,
        stdout,
        ambient_env: sc.extra.ambient.env.len(),
    }
}

/// Names the calling thread for the length of a run (what `/proc/thread-self/comm` shows).
struct ThreadName(Vec<u8>);

impl ThreadName {
    fn set(name: &[u8]) -> ThreadName {
        let mut old = [0u8; 17];
        unsafe {
            libc::prctl(libc::PR_GET_NAME, old.as_mut_ptr());
        }
        let old: Vec<u8> = old.iter().copied().take_while(|b| *b != 0).collect();
        let mut n = name.to_vec();
        n.push(0);
        unsafe {
            libc::prctl(libc::PR_SET_NAME, n.as_ptr());
        }
        ThreadName(old)
    }
}

impl Drop for ThreadName {
    fn drop(&mut self) {
        let mut n = self.0.clone();
        n.push(0);
        unsafe {
            libc::prctl(libc::PR_SET_NAME, n.as_ptr());
        }
    }
}

/// One record of simchild's log.
#[derive(Clone, Debug, Default)]
pub struct ChildRec {
    pub args: Vec<Vec<u8>>,
    /// what getcwd() gave (empty when it failed: a path beyond PATH_MAX)
    pub cwd: Vec<u8>,
    /// bytes the child could still read from its standard input
    pub stdin: Option<usize>,
    /// device and inode of the child's working directory
    pub dir: Option<(u64, u64)>,
}

/// Parse simchild's log (arguments are length-prefixed, so their content cannot confuse it).
pub fn parse_child_records(data: &[u8]) -> Vec<ChildRec> {
    let mut out = vec![];
    let mut p = 0usize;
    let read_line = |p: &mut usize| -> Option<Vec<u8>> {
        let start = *p;
        while *p < data.len() && data[*p] != b'\n' {
            *p += 1;
        }
        if *p >= data.len() {
            return None;
        }
        let l = data[start..*p].to_vec();
        *p += 1;
        Some(l)
    };
    let read_sized = |p: &mut usize| -> Option<Vec<u8>> {
        let start = *p;
        while *p < data.len() && data[*p] != b':' {
            *p += 1;
        }
        let n: usize = std::str::from_utf8(&data[start..*p]).ok()?.parse().ok()?;
        *p += 1;
        if *p + n > data.len() {
            return None;
        }
        let v = data[*p..*p + n].to_vec();
        *p += n + 1; // trailing newline
        Some(v)
    };
    while p < data.len() {
        let Some(l) = read_line(&mut p) else { break };
        let Some(argc) = std::str::from_utf8(&l)
            .ok()
            .and_then(|l| l.strip_prefix("ARGC "))
            .and_then(|n| n.parse::<usize>().ok())
        else {
            break;
        };
        let mut rec = ChildRec::default();
        for _ in 0..argc {
            match read_sized(&mut p) {
                Some(a) => rec.args.push(a),
                None => return out,
            }
        }
        if !data[p..].starts_with(b"CWD ") {
            break;
        }
        p += 4;
        let Some(cwd) = read_sized(&mut p) else { break };
        rec.cwd = cwd;
        // "DIR dev:ino", "STDIN n", then END
        while let Some(l) = read_line(&mut p) {
            if l == b"END" {
                break;
            }
            let text = String::from_utf8_lossy(&l).into_owned();
            if let Some(n) = text.strip_prefix("STDIN ") {
                rec.stdin = n.parse().ok();
            } else if let Some(d) = text.strip_prefix("DIR ") {
                if let Some((a, b)) = d.split_once(':') {
                    if let (Ok(a), Ok(b)) = (a.parse(), b.parse()) {
                        rec.dir = Some((a, b));
                    }
                }
            }
        }
        out.push(rec);
    }
    out
}

/// The "STDIN n" line of every record of simchild's log.
pub fn parse_child_stdin(data: &[u8]) -> Vec<usize> {
    parse_child_records(data).into_iter().filter_map(|r| r.stdin).collect()
}

/// Parse simchild's log: records of (args, cwd).
pub fn parse_child_log(data: &[u8]) -> Vec<(Vec<Vec<u8>>, Vec<u8>)> {
    parse_child_records(data).into_iter().map(|r| (r.args, r.cwd)).collect()
}

// ---------------------------------------------------------------------------
// Reference model, written from the statements of C04, C05, C19 and C20.
// ---------------------------------------------------------------------------

#[derive(Clone, Debug, PartialEq, Eq)]
pub struct Tok {
    pub bytes: Vec<u8>,
    /// the separator that ended this token was a newline (or the -0/-d byte)
    pub hard: bool,
    /// token consists only of an explicit empty quote: presence is optional
    pub optional: bool,
}

#[derive(Clone, Debug, Default)]
pub struct TokSpec {
    pub toks: Vec<Tok>,
    /// input ends inside a quote: error after the tokens above
    pub unterminated: bool,
    /// features on which the statement is silent; only weaker checks apply
    pub unspecified: Vec<&'static str>,
}

/// Default-mode tokenizer over the whole input (no chunking anywhere).
pub fn ref_tokenize_default(input: &[u8]) -> TokSpec {
    let mut spec = TokSpec::default();
    let mut cur: Option<Vec<u8>> = None;
    let mut cur_quoted = false;
    let mut i = 0;
    let n = input.len();
    while i < n {
        let c = input[i];
        match c {
            b'\'' | b'"' => {
                let mut j = i + 1;
                while j < n && input[j] != c {
                    j += 1;
                }
                if j >= n {
                    spec.unterminated = true;
                    if let Some(t) = cur.take() {
                        // an argument in progress when the quote opened is
                        // never completed
                        let _ = t;
                    }
                    if spec.toks.iter().any(|t| t.optional) {
                        spec.unspecified.push("empty-quote");
                    }
                    return spec;
                }
                let content = &input[i + 1..j];
                if content.contains(&b'\n') {
                    spec.unspecified.push("newline-in-quote");
                }
                cur.get_or_insert_with(Vec::new).extend_from_slice(content);
                cur_quoted = true;
                i = j + 1;
            }
            b'\\' => {
                if i + 1 < n {
                    cur.get_or_insert_with(Vec::new).push(input[i + 1]);
                    i += 2;
                } else {
                    spec.unspecified.push("trailing-backslash");
                    i += 1;
                }
            }
            b' ' | b'\t' | b'\n' => {
                if let Some(t) = cur.take() {
                    let optional = t.is_empty() && cur_quoted;
                    spec.toks.push(Tok {
                        bytes: t,
                        hard: c == b'\n',
                        optional,
                    });
                    cur_quoted = false;
                }
                i += 1;
            }
            0x0b | 0x0c | b'\r' => {
                spec.unspecified.push("other-whitespace");
                cur.get_or_insert_with(Vec::new).push(c);
                i += 1;
            }
            _ => {
                cur.get_or_insert_with(Vec::new).push(c);
                i += 1;
            }
        }
    }
    if let Some(t) = cur.take() {
        let optional = t.is_empty() && cur_quoted;
        spec.toks.push(Tok {
            bytes: t,
            hard: false,
            optional,
        });
    }
    if spec.toks.iter().any(|t| t.optional) {
        spec.unspecified.push("empty-quote");
    }
    spec
}

/// -0 / -d C tokenizer: split at that byte only, skip empty fields.
pub fn ref_tokenize_delim(input: &[u8], delim: u8) -> TokSpec {
    let mut spec = TokSpec::default();
    for field in input.split(|b| *b == delim) {
        if !field.is_empty() {
            spec.toks.push(Tok {
                bytes: field.to_vec(),
                hard: true,
                optional: false,
            });
        }
    }
    spec
}

/// Meaning of a `-d` operand, as far as the statement needs it.
pub fn parse_delim_spelling(s: &str) -> Option<u8> {
    let b = s.as_bytes();
    if b.len() == 1 {
        return Some(b[0]);
    }
    if b.len() >= 2 && b[0] == b'\\' {
        return match &s[1..] {
            "n" => Some(b'\n'),
            "t" => Some(b'\t'),
            "\\" => Some(b'\\'),
            "a" => Some(7),
            "b" => Some(8),
            "f" => Some(12),
            "r" => Some(13),
            "v" => Some(11),
            rest if rest.starts_with('x') && rest.len() > 1 => u8::from_str_radix(&rest[1..], 16).ok(),
            rest if rest.starts_with('0') && rest.len() > 1 => u8::from_str_radix(&rest[1..], 8).ok(),
            _ => None,
        };
    }
    None
}

#[derive(Clone, Debug, PartialEq, Eq)]
pub enum Mode {
    Batch,
    Replace(String),
}

#[derive(Clone, Debug)]
pub struct Config {
    pub mode: Mode,
    pub n: Option<usize>,
    pub l: Option<usize>,
    pub s: Option<usize>,
    pub x: bool,
    pub r: bool,
    /// None = default quoting mode
    pub delim: Option<u8>,
    pub usage_error: bool,
}

/// Resolve the option list the way the statements of C04/C05/C20 prescribe.
pub fn resolve(opts: &[Opt]) -> Config {
    let mut n = None;
    let mut l = None;
    let mut s = None;
    let mut x = false;
    let mut r = false;
    let mut repl: Option<(usize, String)> = None;
    let mut delim: Option<(usize, u8)> = None;
    let mut null: Option<usize> = None;
    let mut usage_error = false;
    for (i, o) in opts.iter().enumerate() {
        match o {
            Opt::N(v) => {
                if *v == 0 {
                    usage_error = true;
                }
                n = Some((i, *v));
            }
            Opt::L(v) => {
                if *v == 0 {
                    usage_error = true;
                }
                l = Some((i, *v));
            }
            Opt::S(v) => {
                if *v == 0 {
                    usage_error = true;
                }
                s = Some(*v);
            }
            Opt::X => x = true,
            Opt::R => r = true,
            Opt::Verbose | Opt::MaxProcs(_) | Opt::ArgFile => {}
            Opt::Null => null = Some(i),
            Opt::Delim(d) => match parse_delim_spelling(d) {
                Some(b) => delim = Some((i, b)),
                None => usage_error = true,
            },
            Opt::ReplI(v) => repl = Some((i, v.clone())),
            Opt::ReplLong(v) => repl = Some((i, v.clone().unwrap_or_else(|| "{}".into()))),
            Opt::ReplShort => repl = Some((i, "{}".into())),
            Opt::Raw(_) => usage_error = true,
        }
    }
    // -I, -n, -L: the option given last decides; -I with -n 1 is no conflict.
    let idx = |o: &Option<(usize, usize)>| o.map(|(i, _)| i as i64).unwrap_or(-1);
    let ri = repl.as_ref().map(|(i, _)| *i as i64).unwrap_or(-1);
    let (mode, n_eff, l_eff) = if repl.is_some()
        && l.is_none()
        && (n.is_none() || n.map(|(_, v)| v) == Some(1))
    {
        (Mode::Replace(repl.clone().unwrap().1), Some(1), None)
    } else if repl.is_some() || (n.is_some() && l.is_some()) {
        let ni = idx(&n);
        let li = idx(&l);
        if li > ni && li > ri {
            (Mode::Batch, None, l.map(|(_, v)| v))
        } else if ni > li && ni > ri {
            (Mode::Batch, n.map(|(_, v)| v), None)
        } else {
            (Mode::Replace(repl.clone().unwrap().1), Some(1), None)
        }
    } else {
        (Mode::Batch, n.map(|(_, v)| v), l.map(|(_, v)| v))
    };
    let d = match (delim, null) {
        (Some((di, b)), Some(ni)) => Some(if ni > di { 0 } else { b }),
        (Some((_, b)), None) => Some(b),
        (None, Some(_)) => Some(0),
        (None, None) => match mode {
            Mode::Replace(_) => Some(b'\n'),
            Mode::Batch => None,
        },
    };
    Config {
        mode,
        n: n_eff,
        l: l_eff,
        s,
        x,
        r,
        delim: d,
        usage_error,
    }
}

pub fn tokenize(cfg: &Config, input: &[u8]) -> TokSpec {
    match cfg.delim {
        Some(d) => ref_tokenize_delim(input, d),
        None => ref_tokenize_default(input),
    }
}

/// The run the statements prescribe, ignoring the operating system's own
/// budget (handled separately by the oracles).
#[derive(Clone, Debug, Default)]
pub struct Expect {
    /// full argv of every expected invocation, in order
    pub spawns: Vec<Vec<Vec<u8>>>,
    /// token index ranges per invocation (batch mode)
    pub ranges: Vec<(usize, usize)>,
    /// the run ends with xargs' own error (status 1) after `spawns`
    pub own_error: Option<&'static str>,
    pub exit: i32,
    /// an equally acceptable history: (invocations, exit status, arguments delivered). When an
    /// argument fits nowhere the statement says the run ends with a diagnostic and status 1; it
    /// does not say whether the invocation that was being filled still runs first.
    pub alt: Option<(Vec<Vec<Vec<u8>>>, i32, usize)>,
}

/// The kernel's limit on one argument string, terminator included (MAX_ARG_STRLEN).
pub const MAX_ARG_STRLEN: usize = 131072;

pub fn cost(arg: &[u8]) -> usize {
    arg.len() + 1
}

/// Greedy batching of `toks` under -n/-L/-s/-x/-r.
pub fn ref_batches(cfg: &Config, cmd: &[String], toks: &[Tok]) -> (Vec<(usize, usize)>, Option<&'static str>) {
    let base: usize = cmd.iter().map(|c| cost(c.as_bytes())).sum();
    if let Some(s) = cfg.s {
        if base > s {
            return (vec![], Some("base-too-large"));
        }
    }
    let mut ranges = vec![];
    let mut start = 0usize;
    let mut count = 0usize;
    let mut lines = 0usize;
    let mut chars = base;
    let mut i = 0usize;
    while i < toks.len() {
        let t = &toks[i];
        let count_ok = cfg.n.map_or(true, |n| count < n) && cfg.l.map_or(true, |l| lines < l);
        // (Linux takes no single string longer than 128 KiB with its terminator: such an
        // argument fits no command line at all)
        let too_big = cost(&t.bytes) > MAX_ARG_STRLEN;
        let chars_ok = cfg.s.map_or(true, |s| chars + cost(&t.bytes) <= s) && !too_big;
        if count_ok && chars_ok {
            count += 1;
            chars += cost(&t.bytes);
            if t.hard {
                lines += 1;
            }
            i += 1;
            continue;
        }
        if count_ok && !chars_ok && cfg.x && (cfg.n.is_some() || cfg.l.is_some()) {
            return (ranges, Some("x-overflow"));
        }
        if i > start {
            ranges.push((start, i));
        }
        start = i;
        count = 0;
        lines = 0;
        chars = base;
        if cfg.s.map_or(false, |s| chars + cost(&t.bytes) > s) || too_big {
            return (ranges, Some("argument-too-large"));
        }
    }
    if start < toks.len() {
        ranges.push((start, toks.len()));
    }
    (ranges, None)
}

fn replace_all(hay: &[u8], needle: &[u8], with: &[u8]) -> Vec<u8> {
    if needle.is_empty() {
        return hay.to_vec();
    }
    let mut out = Vec::new();
    let mut i = 0;
    while i < hay.len() {
        if hay[i..].starts_with(needle) {
            out.extend_from_slice(with);
            i += needle.len();
        } else {
            out.push(hay[i]);
            i += 1;
        }
    }
    out
}

pub fn is_fatal(o: &Outcome) -> Option<i32> {
    match o {
        Outcome::Exit(255) => Some(124),
        Outcome::Signal(..) => Some(125),
        Outcome::SpawnErr(e) if *e == libc::ENOENT => Some(127),
        Outcome::SpawnErr(_) => Some(126),
        _ => None,
    }
}

/// Full reference run.
pub fn expect(sc: &XargsScenario, cfg: &Config, spec: &TokSpec) -> Expect {
    expect_with(sc, &sc.cmd, cfg, spec)
}

pub fn expect_with(sc: &XargsScenario, cmd: &[String], cfg: &Config, spec: &TokSpec) -> Expect {
    let mut e = Expect::default();
    if cfg.usage_error {
        e.own_error = Some("usage");
        e.exit = 1;
        return e;
    }
    let cmd_bytes: Vec<Vec<u8>> = cmd.iter().map(|c| c.as_bytes().to_vec()).collect();
    let mut planned: Vec<Vec<Vec<u8>>> = vec![];
    let mut own_error = None;
    match &cfg.mode {
        Mode::Batch => {
            let (ranges, err) = ref_batches(cfg, cmd, &spec.toks);
            own_error = err;
            for (a, b) in &ranges {
                let mut argv = cmd_bytes.clone();
                argv.extend(spec.toks[*a..*b].iter().map(|t| t.bytes.clone()));
                planned.push(argv);
            }
            e.ranges = ranges;
            if spec.toks.is_empty() && !cfg.r && own_error.is_none() && !spec.unterminated {
                planned.push(cmd_bytes.clone());
            }
        }
        Mode::Replace(r) => {
            // one run per non-empty line; nothing appended
            let template: usize = cmd_bytes.iter().map(|a| cost(a)).sum();
            for (i, t) in spec.toks.iter().enumerate() {
                let mut argv = vec![cmd_bytes[0].clone()];
                for a in &cmd_bytes[1..] {
                    argv.push(replace_all(a, r.as_bytes(), &t.bytes));
                }
                // a line that cannot be passed at all - next to the command it does not fit
                // under -s, or the substituted command line does not, or one substituted
                // argument is longer than the kernel takes - ends the run with xargs' own
                // error; every line before it is a complete non-empty line and has had its run
                let substituted: usize = argv.iter().map(|a| cost(a)).sum();
                let over_s = cfg.s.map_or(false, |s| substituted.max(template + cost(&t.bytes)) > s);
                let over_kernel = cost(&t.bytes) > MAX_ARG_STRLEN || argv.iter().any(|a| cost(a) > MAX_ARG_STRLEN);
                if over_s || over_kernel {
                    own_error = Some("argument-too-large");
                    break;
                }
                planned.push(argv);
                e.ranges.push((i, i + 1));
            }
        }
    }
    if own_error.is_none() && spec.unterminated {
        own_error = Some("unterminated-quote");
        // the batch being filled when the error is met never runs
        if matches!(cfg.mode, Mode::Batch) && !planned.is_empty() {
            // every complete batch before the last may have run; the last one
            // is still open when the reader fails
            planned.pop();
        }
    }
    // fold the outcome script over the planned invocations
    let fold = |planned: Vec<Vec<Vec<u8>>>| -> (Vec<Vec<Vec<u8>>>, i32, bool) {
        let mut spawns = vec![];
        let mut any_fail = false;
        let mut fatal = None;
        for (k, argv) in planned.into_iter().enumerate() {
            let o = sc.outcomes.get(k).cloned().unwrap_or(Outcome::Exit(0));
            spawns.push(argv);
            if let Some(st) = is_fatal(&o) {
                fatal = Some(st);
                break;
            }
            if !matches!(o, Outcome::Exit(0)) {
                any_fail = true;
            }
        }
        let exit = if let Some(st) = fatal {
            st
        } else if own_error.is_some() {
            1
        } else if any_fail {
            123
        } else {
            0
        };
        (spawns, exit, fatal.is_some())
    };
    if own_error == Some("argument-too-large") && matches!(cfg.mode, Mode::Batch) && !e.ranges.is_empty() && planned.len() == e.ranges.len() {
        let mut shorter = planned.clone();
        shorter.pop();
        let upto = if e.ranges.len() >= 2 { e.ranges[e.ranges.len() - 2].1 } else { 0 };
        let (sp, ex, _) = fold(shorter);
        e.alt = Some((sp, ex, upto));
    }
    let (spawns, exit, fatal) = fold(planned);
    e.spawns = spawns;
    e.exit = exit;
    let fatal = if fatal { Some(()) } else { None };
    e.own_error = if fatal.is_some() { None } else { own_error };
    e
}
