//! Orchestrator, worker processes, replay, minimisation, determinism selftest.

use std::collections::{BTreeMap, BTreeSet, HashSet};
use std::fs;
use std::io::{BufRead, BufReader, Write};
use std::os::unix::fs::PermissionsExt;
use std::os::unix::io::FromRawFd;
use std::path::{Path, PathBuf};
use std::process::{Child, Command, Stdio};
use std::sync::mpsc;
use std::time::{Duration, Instant};

use serde_json::{json, Value};

use crate::ctx::{install_panic_hook, Ctx};
use crate::prop::{Property, Report, Tier, Violation};
use crate::rng::{run_seed, Rng};
use crate::sys;

pub const DEFAULT_SEED: u64 = 20260928;
const STACK: usize = 256 << 20;

fn verif_root() -> PathBuf {
    // <root>/sim/target/release/fusim -> <root>
    if let Ok(r) = std::env::var("FUSIM_ROOT") {
        return PathBuf::from(r);
    }
    let exe = std::env::current_exe().expect("current_exe");
    exe.ancestors()
        .nth(4)
        .map(|p| p.to_path_buf())
        .unwrap_or_else(|| PathBuf::from("/verif"))
}

fn base_seed() -> u64 {
    std::env::var("VERIF_SEED")
        .ok()
        .and_then(|s| s.trim().parse::<u64>().ok())
        .unwrap_or(DEFAULT_SEED)
}

fn worker_count() -> usize {
    std::env::var("VERIF_WORKERS")
        .ok()
        .and_then(|s| s.parse().ok())
        .unwrap_or_else(|| {
            std::thread::available_parallelism()
                .map(|n| n.get())
                .unwrap_or(4)
                .min(16)
        })
}

fn simchild_src() -> PathBuf {
    let exe = std::env::current_exe().expect("current_exe");
    exe.parent().unwrap().join("simchild")
}

/// Run `f` on a big-stack thread with a fresh context rooted at `scratch`.
fn with_ctx<P: Property, R: Send + 'static>(
    scratch_parent: PathBuf,
    name: String,
    capture: bool,
    f: impl FnOnce(&mut Ctx) -> R + Send + 'static,
) -> R {
    let simchild = scratch_parent.join("simchild");
    let h = std::thread::Builder::new()
        .stack_size(STACK)
        .spawn(move || {
            install_panic_hook();
            let mut unprivileged = !sys::is_root();
            if P::wants_unprivileged() && sys::is_root() {
                unprivileged = sys::drop_privileges();
            }
            let scratch = scratch_parent.join(name);
            let _ = fs::create_dir_all(&scratch);
            let mut ctx = Ctx::new(scratch.clone(), capture, unprivileged, simchild);
            let r = f(&mut ctx);
            sys::wipe(&scratch);
            r
        })
        .expect("spawn sim thread");
    h.join().expect("sim thread")
}

fn make_scratch_parent() -> PathBuf {
    let p = sys::scratch_base().join(format!("fusim-{}", std::process::id()));
    let _ = fs::create_dir_all(&p);
    let _ = fs::set_permissions(&p, fs::Permissions::from_mode(0o777));
    // (a process that drops its privileges must still be able to remove its own directory from
    // the sticky /dev/shm at the end)
    if sys::is_root() {
        use std::os::unix::ffi::OsStrExt;
        if let Ok(c) = std::ffi::CString::new(p.as_os_str().as_bytes()) {
            unsafe {
                libc::chown(c.as_ptr(), 65534, 65534);
            }
        }
    }
    let src = simchild_src();
    if src.exists() {
        let dst = p.join("simchild");
        let _ = fs::copy(&src, &dst);
        let _ = fs::set_permissions(&dst, fs::Permissions::from_mode(0o755));
    }
    p
}

fn scenario_for<P: Property>(base: u64, tier: Tier, seeded: u64, i: u64) -> (u64, P::Sc) {
    if i < seeded {
        let seed = run_seed(base, P::ID, tier.name(), i);
        let mut rng = Rng::new(seed);
        (seed, P::generate(&mut rng, tier))
    } else {
        (i - seeded, P::sweep_item(i - seeded).expect("sweep item"))
    }
}

fn seeded_budget<P: Property>(tier: Tier) -> u64 {
    std::env::var("VERIF_RUNS")
        .ok()
        .and_then(|s| s.parse().ok())
        .unwrap_or_else(|| P::budget(tier))
}

// ---------------------------------------------------------------------------
// worker
// ---------------------------------------------------------------------------

pub fn worker_main<P: Property>(args: &[String]) -> i32 {
    // args: tier base k W seeded sweep scratch_parent curfile
    let tier = Tier::parse(&args[0]).unwrap();
    let base: u64 = args[1].parse().unwrap();
    let k: u64 = args[2].parse().unwrap();
    let w: u64 = args[3].parse().unwrap();
    let seeded: u64 = args[4].parse().unwrap();
    let sweep: u64 = args[5].parse().unwrap();
    let scratch_parent = PathBuf::from(&args[6]);
    let curfile = PathBuf::from(&args[7]);

    // protocol channel: a private copy of fd 1; fd 1 itself goes to /dev/null
    let proto_fd = unsafe { libc::dup(1) };
    unsafe {
        libc::fcntl(proto_fd, libc::F_SETFD, libc::FD_CLOEXEC);
        let devnull = libc::open(b"/dev/null\0".as_ptr() as *const libc::c_char, libc::O_WRONLY);
        libc::dup2(devnull, 1);
        libc::close(devnull);
    }
    let mut proto = unsafe { fs::File::from_raw_fd(proto_fd) };

    // progress word shared with the orchestrator
    let cur = fs::OpenOptions::new()
        .read(true)
        .write(true)
        .create(true)
        .truncate(false)
        .open(&curfile)
        .expect("curfile");
    cur.set_len(16).unwrap();
    let map = unsafe {
        libc::mmap(
            std::ptr::null_mut(),
            16,
            libc::PROT_READ | libc::PROT_WRITE,
            libc::MAP_SHARED,
            std::os::unix::io::AsRawFd::as_raw_fd(&cur),
            0,
        )
    } as *mut u64;
    let map_addr = map as usize;

    let total = seeded + sweep;
    let slow_ms: Option<u64> = std::env::var("FUSIM_SLOW_MS").ok().and_then(|v| v.parse().ok());
    let lines = with_ctx::<P, Vec<String>>(scratch_parent, format!("w{k}"), true, move |ctx| {
        let map = map_addr as *mut u64;
        let mut out: Vec<String> = vec![];
        let mut faults: BTreeMap<&'static str, u64> = BTreeMap::new();
        let mut probes: BTreeMap<&'static str, u64> = BTreeMap::new();
        let mut hashes: HashSet<u64> = HashSet::new();
        let mut capped = false;
        let mut nontrivial = 0u64;
        let mut steps = 0u64;
        let mut executions = 0u64;
        let mut sim_time = 0f64;
        let mut runs = 0u64;
        let mut samples: Vec<Value> = vec![];
        let mut classes: BTreeMap<String, u64> = BTreeMap::new();
        let want_samples = if k == 0 { 3 } else { 1 };
        let mut i = k;
        while i < total {
            unsafe {
                std::ptr::write_volatile(map, i + 1);
            }
            let (seed, sc) = scenario_for::<P>(base, tier, seeded, i);
            let want = samples.len() < want_samples && (i / w) % 97 == 0;
            let mut rep = Report::new(want);
            let t0 = Instant::now();
            P::check(&sc, ctx, &mut rep);
            if let Some(ms) = slow_ms {
                // profiling aid (FUSIM_SLOW_MS): which runs cost how much
                let el = t0.elapsed().as_millis() as u64;
                if el >= ms {
                    ctx.note(&format!("slow run i={i} {el} ms\n"));
                }
            }
            runs += 1;
            for (k2, v) in &rep.faults {
                *faults.entry(k2).or_insert(0) += v;
            }
            for (k2, v) in &rep.probes {
                *probes.entry(k2).or_insert(0) += v;
            }
            steps += rep.steps;
            executions += rep.executions;
            sim_time += rep.sim_time_s;
            if rep.nontrivial() {
                nontrivial += 1;
                if hashes.len() < 3_000_000 {
                    hashes.insert(rep.trace.0);
                } else {
                    capped = true;
                }
            }
            if let Some(s) = rep.sample.take() {
                samples.push(json!({"run_index": i, "seed": seed, "case": s}));
            }
            if let Some(v) = rep.violation.take() {
                let n = classes.entry(v.class.clone()).or_insert(0);
                *n += 1;
                if *n == 1 {
                    out.push(
                        json!({"t":"viol","i":i,"seed":seed,"class":v.class,"detail":v.detail,
                               "scenario": serde_json::to_value(&sc).unwrap()})
                        .to_string(),
                    );
                }
            }
            i += w;
        }
        unsafe {
            std::ptr::write_volatile(map, 0);
        }
        let mut hv: Vec<u64> = hashes.into_iter().collect();
        hv.sort_unstable();
        out.push(
            json!({"t":"done","runs":runs,"faults":faults,"probes":probes,"hashes":hv,
                   "capped":capped,"nontrivial":nontrivial,"steps":steps,"executions":executions,
                   "sim_time_s":sim_time,"samples":samples,"classes":classes,
                   "unprivileged": ctx.unprivileged})
            .to_string(),
        );
        out
    });
    for l in lines {
        let _ = writeln!(proto, "{l}");
    }
    0
}

// ---------------------------------------------------------------------------
// known findings
// ---------------------------------------------------------------------------

pub struct Known {
    pub property: String,
    pub class: String,
    pub text: String,
}

pub fn load_known(root: &Path) -> Vec<Known> {
    let mut v = vec![];
    let Ok(s) = fs::read_to_string(root.join("known_findings.txt")) else {
        return v;
    };
    for line in s.lines() {
        let line = line.trim();
        let Some(rest) = line.strip_prefix("KNOWN-FINDING:") else {
            continue;
        };
        let mut property = String::new();
        let mut class = String::new();
        let mut text = vec![];
        for w in rest.split_whitespace() {
            if let Some(p) = w.strip_prefix("property=") {
                property = p.to_string();
            } else if let Some(c) = w.strip_prefix("class=") {
                class = c.to_string();
            } else {
                text.push(w);
            }
        }
        if !property.is_empty() && !class.is_empty() {
            v.push(Known {
                property,
                class,
                text: text.join(" "),
            });
        }
    }
    v
}

// ---------------------------------------------------------------------------
// orchestrator
// ---------------------------------------------------------------------------

#[derive(Clone)]
struct Cand {
    i: u64,
    seed: u64,
    class: String,
    detail: String,
    scenario: Value,
}

fn self_exe() -> PathBuf {
    std::env::current_exe().expect("current_exe")
}

fn write_replay(path: &Path, id: &str, tier: Tier, base: u64, c: &Cand, minimised: bool) {
    let v = json!({
        "property": id, "tier": tier.name(), "base_seed": base, "run_index": c.i,
        "seed": c.seed, "class": c.class, "detail": c.detail, "minimised": minimised,
        "scenario": c.scenario,
    });
    let _ = fs::write(path, serde_json::to_string_pretty(&v).unwrap());
}

/// Re-run a replay file in a fresh process; returns the class it produced.
fn fresh_replay(path: &Path, timeout: Duration) -> Result<Option<(String, String)>, String> {
    let mut child = Command::new(self_exe())
        .arg("replay")
        .arg(path)
        .arg("--json")
        .stdout(Stdio::piped())
        .stderr(Stdio::inherit())
        .spawn()
        .map_err(|e| e.to_string())?;
    let start = Instant::now();
    // (drain the pipe while waiting: a verdict can be longer than a pipe holds)
    let mut pipe = child.stdout.take().unwrap();
    let reader = std::thread::spawn(move || {
        use std::io::Read;
        let mut s = Vec::new();
        let _ = pipe.read_to_end(&mut s);
        String::from_utf8_lossy(&s).into_owned()
    });
    loop {
        match child.try_wait() {
            Ok(Some(_)) => break,
            Ok(None) => {
                if start.elapsed() > timeout {
                    let _ = child.kill();
                    let _ = child.wait();
                    return Ok(Some(("hang".into(), "timed out on replay".into())));
                }
                std::thread::sleep(Duration::from_millis(20));
            }
            Err(e) => return Err(e.to_string()),
        }
    }
    let s = reader.join().map_err(|_| "reader thread".to_string())?;
    let st = child.wait().map_err(|e| e.to_string())?;
    if !st.success() && st.code() != Some(1) {
        return Ok(Some((
            "crash".into(),
            format!("replay process ended with {st:?}"),
        )));
    }
    for line in s.lines() {
        if let Ok(v) = serde_json::from_str::<Value>(line) {
            if v["t"] == "verdict" {
                if v["class"].is_null() {
                    return Ok(None);
                }
                return Ok(Some((
                    v["class"].as_str().unwrap_or("").to_string(),
                    v["detail"].as_str().unwrap_or("").to_string(),
                )));
            }
        }
    }
    Err(format!("replay produced no verdict: {s}"))
}

pub fn orchestrate<P: Property>(tier: Tier) -> i32 {
    let start = Instant::now();
    let root = verif_root();
    let base = base_seed();
    let seeded = seeded_budget::<P>(tier);
    let sweep = if std::env::var("VERIF_NO_SWEEP").is_ok() {
        0
    } else {
        P::sweep_len(tier)
    };
    let w = worker_count().max(1);
    let scratch_parent = make_scratch_parent();
    println!(
        "fusim: property={} tier={} VERIF_SEED={} seeded_runs={} sweep_items={} workers={}",
        P::ID,
        tier.name(),
        base,
        seeded,
        sweep,
        w
    );

    let (tx, rx) = mpsc::channel::<(usize, Option<String>)>();
    let mut children: Vec<Option<Child>> = vec![];
    let mut curfiles = vec![];
    for k in 0..w {
        let curfile = scratch_parent.join(format!("cur{k}"));
        let mut child = Command::new(self_exe())
            .arg("worker")
            .arg(P::ID)
            .arg(tier.name())
            .arg(base.to_string())
            .arg(k.to_string())
            .arg(w.to_string())
            .arg(seeded.to_string())
            .arg(sweep.to_string())
            .arg(&scratch_parent)
            .arg(&curfile)
            .stdin(Stdio::null())
            .stdout(Stdio::piped())
            .stderr(Stdio::inherit())
            .spawn()
            .expect("spawn worker");
        let out = child.stdout.take().unwrap();
        let txk = tx.clone();
        std::thread::spawn(move || {
            let rd = BufReader::with_capacity(1 << 20, out);
            for line in rd.lines() {
                match line {
                    Ok(l) => {
                        let _ = txk.send((k, Some(l)));
                    }
                    Err(_) => break,
                }
            }
            let _ = txk.send((k, None));
        });
        children.push(Some(child));
        curfiles.push(curfile);
    }
    drop(tx);

    let mut cands: Vec<Cand> = vec![];
    let mut done: Vec<Option<Value>> = (0..w).map(|_| None).collect();
    let mut eof = vec![false; w];
    let mut last_cur: Vec<(u64, Instant)> = (0..w).map(|_| (u64::MAX, Instant::now())).collect();
    let mut harness_errors: Vec<String> = vec![];
    let hang_limit = Duration::from_secs(P::hang_limit_s());

    let read_cur = |p: &Path| -> u64 {
        fs::read(p)
            .ok()
            .filter(|b| b.len() >= 8)
            .map(|b| u64::from_le_bytes(b[..8].try_into().unwrap()))
            .unwrap_or(0)
    };

    while eof.iter().any(|e| !e) {
        match rx.recv_timeout(Duration::from_millis(250)) {
            Ok((k, Some(line))) => match serde_json::from_str::<Value>(&line) {
                Ok(v) => {
                    if v["t"] == "viol" {
                        cands.push(Cand {
                            i: v["i"].as_u64().unwrap_or(0),
                            seed: v["seed"].as_u64().unwrap_or(0),
                            class: v["class"].as_str().unwrap_or("").to_string(),
                            detail: v["detail"].as_str().unwrap_or("").to_string(),
                            scenario: v["scenario"].clone(),
                        });
                    } else if v["t"] == "done" {
                        done[k] = Some(v);
                    }
                }
                Err(e) => harness_errors.push(format!("worker {k}: bad line: {e}")),
            },
            Ok((k, None)) => {
                eof[k] = true;
                if let Some(mut c) = children[k].take() {
                    let st = c.wait();
                    if done[k].is_none() {
                        // died without a summary: crash inside a run
                        let cur = read_cur(&curfiles[k]);
                        if cur > 0 {
                            let i = cur - 1;
                            let (seed, sc) = scenario_for::<P>(base, tier, seeded, i);
                            cands.push(Cand {
                                i,
                                seed,
                                class: format!("{}.crash", P::ID),
                                detail: format!("worker process died ({st:?}) while executing this run"),
                                scenario: serde_json::to_value(&sc).unwrap(),
                            });
                        } else {
                            harness_errors.push(format!("worker {k} died outside a run: {st:?}"));
                        }
                    }
                }
            }
            Err(mpsc::RecvTimeoutError::Timeout) => {}
            Err(mpsc::RecvTimeoutError::Disconnected) => break,
        }
        // watchdog
        for k in 0..w {
            if eof[k] || children[k].is_none() {
                continue;
            }
            let cur = read_cur(&curfiles[k]);
            if cur != last_cur[k].0 {
                last_cur[k] = (cur, Instant::now());
            } else if cur > 0 && last_cur[k].1.elapsed() > hang_limit {
                let i = cur - 1;
                if let Some(c) = children[k].as_mut() {
                    let _ = c.kill();
                }
                let (seed, sc) = scenario_for::<P>(base, tier, seeded, i);
                cands.push(Cand {
                    i,
                    seed,
                    class: format!("{}.hang", P::ID),
                    detail: format!(
                        "run did not finish within {} s (bounded liveness)",
                        hang_limit.as_secs()
                    ),
                    scenario: serde_json::to_value(&sc).unwrap(),
                });
                // mark: the worker's remaining runs are lost
                harness_errors.push(format!(
                    "worker {k} killed after a hang at run {i}; its remaining runs were not executed"
                ));
                last_cur[k] = (u64::MAX, Instant::now());
            }
        }
    }

    // ---- merge statistics
    let mut runs = 0u64;
    let mut faults: BTreeMap<String, u64> = BTreeMap::new();
    let mut probes: BTreeMap<String, u64> = BTreeMap::new();
    let mut hashes: BTreeSet<u64> = BTreeSet::new();
    let mut nontrivial = 0u64;
    let mut steps = 0u64;
    let mut executions = 0u64;
    let mut sim_time = 0f64;
    let mut samples: Vec<Value> = vec![];
    let mut class_counts: BTreeMap<String, u64> = BTreeMap::new();
    let mut capped = false;
    let mut unprivileged = true;
    for d in done.iter().flatten() {
        runs += d["runs"].as_u64().unwrap_or(0);
        nontrivial += d["nontrivial"].as_u64().unwrap_or(0);
        steps += d["steps"].as_u64().unwrap_or(0);
        executions += d["executions"].as_u64().unwrap_or(0);
        sim_time += d["sim_time_s"].as_f64().unwrap_or(0.0);
        capped |= d["capped"].as_bool().unwrap_or(false);
        unprivileged &= d["unprivileged"].as_bool().unwrap_or(false);
        for (k, v) in d["faults"].as_object().into_iter().flatten() {
            *faults.entry(k.clone()).or_insert(0) += v.as_u64().unwrap_or(0);
        }
        for (k, v) in d["probes"].as_object().into_iter().flatten() {
            *probes.entry(k.clone()).or_insert(0) += v.as_u64().unwrap_or(0);
        }
        for (k, v) in d["classes"].as_object().into_iter().flatten() {
            *class_counts.entry(k.clone()).or_insert(0) += v.as_u64().unwrap_or(0);
        }
        for h in d["hashes"].as_array().into_iter().flatten() {
            if let Some(h) = h.as_u64() {
                hashes.insert(h);
            }
        }
        for s in d["samples"].as_array().into_iter().flatten() {
            if samples.len() < 4 {
                samples.push(s.clone());
            }
        }
    }

    // ---- violations: first instance per class (lowest run index)
    cands.sort_by_key(|c| c.i);
    let died_in_a_run = cands.iter().any(|c| c.class.ends_with(".crash") || c.class.ends_with(".hang"));
    // every worker reports its first run of each class: keep them all, lowest run index first
    let mut by_class: BTreeMap<String, Vec<Cand>> = BTreeMap::new();
    for c in cands {
        by_class.entry(c.class.clone()).or_default().push(c);
    }
    let known = load_known(&root);
    // FUSIM_OUT redirects replay and evidence files (used when the checks are pointed at a
    // deliberately broken tree, so that the committed evidence is not overwritten)
    let out_root = std::env::var("FUSIM_OUT").map(PathBuf::from).unwrap_or_else(|_| root.clone());
    let replay_dir = out_root.join("replays");
    let _ = fs::create_dir_all(&replay_dir);
    let mut violations = 0u64;
    let mut known_hits: Vec<String> = vec![];
    let mut exit = 0;
    let mut reported: Vec<Value> = vec![];
    for (class, cands_of_class) in by_class {
        let short = class.replace(|c: char| !c.is_ascii_alphanumeric() && c != '.' && c != '-', "_");
        let tmo = Duration::from_secs(P::hang_limit_s() * 2 + 10);
        // 1. confirm in a fresh process. A run whose verdict rests on values only the real
        // clock decides (two real ctimes) may not repeat: try the next runs of the same class
        // before calling the class irreproducible.
        let mut chosen: Option<(Cand, PathBuf)> = None;
        let mut misses: Vec<String> = vec![];
        for cand in cands_of_class.iter().take(6) {
            let raw_path = replay_dir.join(format!("{}-{}-run{}.raw.json", P::ID, short, cand.i));
            write_replay(&raw_path, P::ID, tier, base, cand, false);
            match fresh_replay(&raw_path, tmo) {
                Ok(Some((c, _))) if c == class || class.ends_with(".hang") && c == "hang" || class.ends_with(".crash") && c == "crash" => {
                    chosen = Some((cand.clone(), raw_path));
                    break;
                }
                Ok(other) => {
                    misses.push(format!(
                        "run {} reported {} but a fresh process gives {:?}: not reproducible",
                        cand.i, class, other.map(|x| x.0)
                    ));
                    let _ = fs::remove_file(&raw_path);
                }
                Err(e) => {
                    misses.push(format!("replay of run {} failed: {e}", cand.i));
                    let _ = fs::remove_file(&raw_path);
                }
            }
        }
        let Some((cand, raw_path)) = chosen else {
            harness_errors.extend(misses);
            continue;
        };
        // 2. minimise (in another fresh process), 3. replay the minimised file
        let min_path = replay_dir.join(format!("{}-{}-run{}.json", P::ID, short, cand.i));
        let mut final_path = raw_path.clone();
        let mut min_detail: Option<String> = None;
        if !class.ends_with(".hang") && !class.ends_with(".crash") {
            let st = Command::new(self_exe())
                .arg("shrink")
                .arg(&raw_path)
                .arg("-")
                .stdout(Stdio::piped())
                .stderr(Stdio::inherit())
                .output();
            if let Ok(o) = &st {
                if o.status.success() && !o.stdout.is_empty() {
                    let _ = fs::write(&min_path, &o.stdout);
                }
            }
            if matches!(&st, Ok(o) if o.status.success()) && min_path.exists() {
                match fresh_replay(&min_path, tmo) {
                    Ok(Some((c, d))) if c == class => {
                        final_path = min_path.clone();
                        min_detail = Some(d);
                        let _ = fs::remove_file(&raw_path);
                    }
                    _ => {
                        let _ = fs::remove_file(&min_path);
                    }
                }
            }
        }
        let n = class_counts.get(&class).copied().unwrap_or(1);
        if let Some(k) = known.iter().find(|k| k.property == P::ID && k.class == class) {
            println!("KNOWN-FINDING: property={} class={} {}", P::ID, class, k.text);
            known_hits.push(class.clone());
            reported.push(json!({"class": class, "known_finding": true, "runs_affected": n, "replay": final_path}));
        } else {
            violations += 1;
            exit = 1;
            println!("violation class={} runs_affected={} first_run={} seed={}", class, n, cand.i, cand.seed);
            println!("  first seen as: {}", cand.detail.chars().take(1200).collect::<String>());
            if let Some(d) = &min_detail {
                println!("  minimised to:  {}", d.chars().take(1200).collect::<String>());
            }
            println!("VIOLATION property={} replay={}", P::ID, final_path.display());
            reported.push(json!({"class": class, "known_finding": false, "runs_affected": n, "replay": final_path}));
        }
    }

    let wall = start.elapsed().as_secs_f64();
    let total_expected = seeded + sweep;
    if runs != total_expected && harness_errors.is_empty() {
        if died_in_a_run && violations > 0 {
            // a worker that the code under test killed (or hung) does not execute the rest of
            // its share: reported as the violation it is, not as a harness error
            println!("fusim: {} of {} runs executed (worker processes ended inside a run, see the violations above)", runs, total_expected);
        } else {
            harness_errors.push(format!("executed {runs} runs, expected {total_expected}"));
        }
    }
    let zero_probes: Vec<&String> = probes.iter().filter(|(_, v)| **v == 0).map(|(k, _)| k).collect();
    let evidence = json!({
        "property_id": P::ID,
        "tier": tier.name(),
        "seed": base,
        "level": P::level(),
        "coverage": {
            "evaluations": runs,
            "distinct_nontrivial": hashes.len(),
            "distinct_nontrivial_is_lower_bound": capped,
            "nontrivial_runs": nontrivial,
            "rule": P::rule(),
            "samples": samples,
            "exhaustive": false,
            "seeded_runs": seeded.min(runs),
            "sweep_items": sweep,
            "program_executions": executions,
            "steps": steps,
            "fault_counts": faults,
            "probes": probes,
            "sim_time_covered_s": sim_time,
            "runs_per_hour": if wall > 0.0 { (runs as f64 / wall * 3600.0) as u64 } else { 0 },
            "seeds": {"base": base, "first_run_seed": run_seed(base, P::ID, tier.name(), 0),
                      "last_run_seed": run_seed(base, P::ID, tier.name(), seeded.saturating_sub(1)),
                      "derivation": "seed_i = splitmix(base, property, tier, i), i in 0..seeded_runs"},
            "components": P::components(),
            "workers": w,
            "unprivileged_workers": unprivileged,
            "violations_reported": reported,
            "harness_errors": harness_errors,
        },
        "assumptions": P::assumptions(),
        "wall_s": wall,
        "violations": violations,
    });
    let ev_dir = out_root.join("evidence");
    let _ = fs::create_dir_all(&ev_dir);
    let _ = fs::write(
        ev_dir.join(format!("{}.json", P::ID)),
        serde_json::to_string_pretty(&evidence).unwrap(),
    );
    sys::wipe(&scratch_parent);

    println!(
        "fusim: {} runs ({} program executions), {} distinct non-trivial traces, {:.1} s, faults {:?}",
        runs,
        executions,
        hashes.len(),
        wall,
        faults
    );
    for z in zero_probes {
        println!("warning: probe {z} never hit");
    }
    if !harness_errors.is_empty() {
        for e in &harness_errors {
            println!("HARNESS-ERROR: {e}");
        }
        if exit == 0 {
            exit = 2;
        }
    }
    if exit == 0 {
        println!(
            "OK property={} held on {} runs{}",
            P::ID,
            runs,
            if known_hits.is_empty() {
                String::new()
            } else {
                format!(" (known findings: {})", known_hits.join(", "))
            }
        );
    }
    exit
}

// ---------------------------------------------------------------------------
// replay / shrink / determinism
// ---------------------------------------------------------------------------

/// Print run `i` of a property as a replay file (for debugging and demos).
pub fn gen_main<P: Property>(tier: Tier, i: u64) -> i32 {
    let base = base_seed();
    let seeded = seeded_budget::<P>(tier);
    let (seed, sc) = scenario_for::<P>(base, tier, seeded, i);
    let v = json!({
        "property": P::ID, "tier": tier.name(), "base_seed": base, "run_index": i,
        "seed": seed, "class": "", "detail": "", "minimised": false,
        "scenario": serde_json::to_value(&sc).unwrap(),
    });
    println!("{}", serde_json::to_string_pretty(&v).unwrap());
    0
}

pub fn replay_file_property(path: &str) -> String {
    let s = fs::read_to_string(path).unwrap_or_else(|e| {
        eprintln!("fusim: cannot read {path}: {e}");
        std::process::exit(2);
    });
    let v: Value = serde_json::from_str(&s).unwrap_or_else(|e| {
        eprintln!("fusim: {path} is not a replay file: {e}");
        std::process::exit(2);
    });
    v["property"].as_str().unwrap_or("").to_string()
}

fn load_replay<P: Property>(path: &str) -> (Value, P::Sc) {
    let s = fs::read_to_string(path).expect("read replay");
    let v: Value = serde_json::from_str(&s).expect("parse replay");
    let sc: P::Sc = serde_json::from_value(v["scenario"].clone()).unwrap_or_else(|e| {
        eprintln!("fusim: scenario in {path} does not parse: {e}");
        std::process::exit(2);
    });
    (v, sc)
}

fn run_once<P: Property>(sc: P::Sc, sample: bool) -> (Option<Violation>, u64, Option<Value>) {
    let parent = make_scratch_parent();
    let r = with_ctx::<P, _>(parent.clone(), "replay".into(), true, move |ctx| {
        let mut rep = Report::new(sample);
        P::check(&sc, ctx, &mut rep);
        (rep.violation.take(), rep.trace.0, rep.sample.take())
    });
    sys::wipe(&parent);
    r
}

pub fn replay_main<P: Property>(path: &str, mode: Option<&str>) -> i32 {
    let (v, sc) = load_replay::<P>(path);
    if v["crosscheck"].as_bool() == Some(true) {
        return crosscheck_replay::<P>(sc, path);
    }
    let json_mode = mode == Some("--json");
    let (viol, trace, sample) = run_once::<P>(sc, !json_mode);
    if json_mode {
        match &viol {
            Some(x) => println!("{}", json!({"t":"verdict","class":x.class,"detail":x.detail,"trace":trace})),
            None => println!("{}", json!({"t":"verdict","class":Value::Null,"trace":trace})),
        }
        return if viol.is_some() { 1 } else { 0 };
    }
    let expected = v["class"].as_str().unwrap_or("");
    if mode == Some("--show") {
        if let Some(s) = sample {
            println!("{}", serde_json::to_string_pretty(&s).unwrap());
        }
    }
    match viol {
        Some(x) => {
            println!("replay: class={} (file says {})", x.class, expected);
            println!("  {}", x.detail);
            let known = load_known(&verif_root());
            if let Some(k) = known.iter().find(|k| k.property == P::ID && k.class == x.class) {
                println!("KNOWN-FINDING: property={} class={} {}", P::ID, x.class, k.text);
                0
            } else {
                println!("VIOLATION property={} replay={}", P::ID, path);
                1
            }
        }
        None => {
            println!("replay: no violation (file says {expected})");
            0
        }
    }
}

pub fn shrink_main<P: Property>(path: &str, out: &str) -> i32 {
    let (v, sc) = load_replay::<P>(path);
    let class = v["class"].as_str().unwrap_or("").to_string();
    let parent = make_scratch_parent();
    let class2 = class.clone();
    let (best, detail, evals) = with_ctx::<P, _>(parent.clone(), "shrink".into(), true, move |ctx| {
        let mut best = sc;
        let mut detail = String::new();
        let mut evals = 0u64;
        let start = Instant::now();
        'outer: loop {
            if evals > 20_000 || start.elapsed() > Duration::from_secs(120) {
                break;
            }
            for cand in P::shrink(&best) {
                evals += 1;
                let mut rep = Report::new(false);
                P::check(&cand, ctx, &mut rep);
                if let Some(x) = rep.violation {
                    if x.class == class2 {
                        best = cand;
                        detail = x.detail;
                        continue 'outer;
                    }
                }
                if evals > 20_000 || start.elapsed() > Duration::from_secs(120) {
                    break 'outer;
                }
            }
            break;
        }
        (best, detail, evals)
    });
    sys::wipe(&parent);
    let mut nv = v.clone();
    nv["scenario"] = serde_json::to_value(&best).unwrap();
    nv["minimised"] = json!(true);
    nv["shrink_evaluations"] = json!(evals);
    if !detail.is_empty() {
        nv["detail"] = json!(detail);
    }
    let text = serde_json::to_string_pretty(&nv).unwrap();
    if out == "-" {
        // the process may have dropped its privileges: let the caller write
        println!("{text}");
    } else {
        fs::write(out, text).expect("write minimised");
    }
    0
}

/// Binary cross-check: the first scenarios of the quick tier that are comparable, through the
/// seams and through the real executables. Exit 0 = all agree, 2 = a disagreement (harness
/// error by design: real pipes are not under seed control).
/// The feature-off executables, copied where a worker that dropped its privileges can run them.
fn prepare_bins(parent: &Path) -> Result<PathBuf, String> {
    let root = verif_root();
    let bins = std::env::var("FUSIM_BINS").map(PathBuf::from).unwrap_or_else(|_| root.join("sim/target/repo-bins/debug"));
    if !bins.join("find").exists() || !bins.join("xargs").exists() {
        return Err(format!("no feature-off executables in {} (run ./check --build-bins)", bins.display()));
    }
    let d = parent.join("bins");
    let _ = fs::create_dir_all(&d);
    let _ = fs::set_permissions(&d, fs::Permissions::from_mode(0o755));
    for b in ["find", "xargs"] {
        let _ = fs::copy(bins.join(b), d.join(b));
        let _ = fs::set_permissions(d.join(b), fs::Permissions::from_mode(0o755));
    }
    // (removable after a privilege drop, like the scratch parent itself)
    if sys::is_root() {
        use std::os::unix::ffi::OsStrExt;
        if let Ok(c) = std::ffi::CString::new(d.as_os_str().as_bytes()) {
            unsafe {
                libc::chown(c.as_ptr(), 65534, 65534);
            }
        }
    }
    // the LD_PRELOAD shim, when it could be built
    if bins.join(crate::crosscheck::SHIM).exists() {
        let _ = fs::copy(bins.join(crate::crosscheck::SHIM), d.join(crate::crosscheck::SHIM));
        let _ = fs::set_permissions(d.join(crate::crosscheck::SHIM), fs::Permissions::from_mode(0o755));
    }
    Ok(d)
}

pub fn crosscheck_main<P: Property>(n: u64) -> i32 {
    use crate::crosscheck::Xc;
    let root = verif_root();
    let base = base_seed();
    let seeded = seeded_budget::<P>(Tier::Quick);
    // (read before a context resets the environment)
    let out_root = std::env::var("FUSIM_OUT").map(PathBuf::from).unwrap_or_else(|_| root.clone());
    let parent = make_scratch_parent();
    let bins = match prepare_bins(&parent) {
        Ok(b) => b,
        Err(e) => {
            println!("HARNESS-ERROR: {e}");
            sys::wipe(&parent);
            return 2;
        }
    };
    let shim_there = bins.join(crate::crosscheck::SHIM).exists();
    let start = Instant::now();
    let (tried, compared, disagreements, differences) = with_ctx::<P, _>(parent.clone(), "xc".into(), true, move |ctx| {
        let mut tried = 0u64;
        let mut compared = 0u64;
        let mut dis: Vec<(u64, String)> = vec![];
        let mut dif: Vec<(u64, u64, String, Value)> = vec![];
        let mut i = 0u64;
        while compared < n && tried < n * 30 && i < seeded {
            let (seed, sc) = scenario_for::<P>(base, Tier::Quick, seeded, i);
            tried += 1;
            match P::crosscheck(&sc, ctx, &bins) {
                Xc::NotComparable => {}
                Xc::Agree => compared += 1,
                Xc::Disagree(d) => {
                    compared += 1;
                    if dis.len() < 5 {
                        dis.push((i, d));
                    }
                }
                Xc::Differs(d) => {
                    compared += 1;
                    if dif.len() < 3 {
                        dif.push((i, seed, d, serde_json::to_value(&sc).unwrap()));
                    }
                }
            }
            i += 1;
        }
        // the fixed extras (run index = u64::MAX - k in reports)
        for (k, sc) in P::crosscheck_extras().into_iter().enumerate() {
            tried += 1;
            match P::crosscheck(&sc, ctx, &bins) {
                Xc::NotComparable => {}
                Xc::Agree => compared += 1,
                Xc::Disagree(d) => {
                    compared += 1;
                    dis.push((u64::MAX - k as u64, d));
                }
                Xc::Differs(d) => {
                    compared += 1;
                    dif.push((u64::MAX - k as u64, 0, d, serde_json::to_value(&sc).unwrap()));
                }
            }
        }
        (tried, compared, dis, dif)
    });
    sys::wipe(&parent);
    let wall = start.elapsed().as_secs_f64();
    println!(
        "fusim: crosscheck property={} scenarios_tried={} compared_with_executables={} disagreements={} differences={} {:.1} s",
        P::ID,
        tried,
        compared,
        disagreements.len(),
        differences.len(),
        wall
    );
    for (i, d) in &disagreements {
        println!("HARNESS-ERROR: binary cross-check, quick run {i}: {}", d.chars().take(1500).collect::<String>());
    }
    let class = format!("{}.executable-differs", P::ID);
    for (i, seed, d, scv) in &differences {
        let dir = out_root.join("replays");
        let _ = fs::create_dir_all(&dir);
        let path = dir.join(format!("{}-executable-differs-{i}.json", P::ID));
        let v = json!({
            "property": P::ID, "tier": "quick", "base_seed": base, "run_index": i, "seed": seed,
            "class": class, "detail": d, "minimised": false, "crosscheck": true,
            "scenario": scv,
        });
        let _ = fs::write(&path, serde_json::to_string_pretty(&v).unwrap());
        println!("violation class={class} run={i} seed={seed}");
        println!("  {}", d.chars().take(1500).collect::<String>());
        println!("VIOLATION property={} replay={}", P::ID, path.display());
    }
    // record in the evidence file of the last check run, if there is one
    let evp = out_root.join("evidence").join(format!("{}.json", P::ID));
    if let Ok(text) = fs::read_to_string(&evp) {
        if let Ok(mut v) = serde_json::from_str::<Value>(&text) {
            v["coverage"]["binary_crosscheck"] = json!({
                "what": "the same scenario through the in-process seams and through the find/xargs executables built from /repo with the hooks feature off (real pipes, real simchild children; xargs' standard input is in turn a pipe, a regular file, a regular file whose offset is past bytes consumed earlier): exit status, child argv and cwd, output bytes must be equal (a difference is a violation), presence of diagnostics too (a difference is a harness error)",
                "scenarios_tried": tried, "compared": compared, "disagreements": disagreements.len(), "differences": differences.len(), "wall_s": wall,
                "syscall_shim": if shim_there { "a third of the executable runs happen under an LD_PRELOAD shim (sim/shim/fusim_shim.c) that makes their own write(1) and read(0) return short counts and EINTR by a plan derived from the scenario" } else { "not available (no C compiler): the executables met only what real pipes and files do" },
            });
            let _ = fs::write(&evp, serde_json::to_string_pretty(&v).unwrap());
        }
    }
    if compared == 0 {
        println!("fusim: crosscheck: no comparable scenario for {}", P::ID);
    }
    if !differences.is_empty() {
        1
    } else if !disagreements.is_empty() {
        2
    } else {
        0
    }
}

/// Replay of a file written by the cross-check: the scenario through both again.
fn crosscheck_replay<P: Property>(sc: P::Sc, path: &str) -> i32 {
    use crate::crosscheck::Xc;
    let parent = make_scratch_parent();
    let bins = match prepare_bins(&parent) {
        Ok(b) => b,
        Err(e) => {
            println!("HARNESS-ERROR: {e}");
            sys::wipe(&parent);
            return 2;
        }
    };
    let r = with_ctx::<P, _>(parent.clone(), "xc".into(), true, move |ctx| P::crosscheck(&sc, ctx, &bins));
    sys::wipe(&parent);
    match r {
        Xc::Differs(d) => {
            println!("replay: class={}.executable-differs", P::ID);
            println!("  {d}");
            println!("VIOLATION property={} replay={}", P::ID, path);
            1
        }
        Xc::Disagree(d) => {
            println!("HARNESS-ERROR: {d}");
            2
        }
        Xc::Agree => {
            println!("replay: no violation (in-process run and executables agree)");
            0
        }
        Xc::NotComparable => {
            println!("HARNESS-ERROR: the scenario in {path} is not comparable");
            2
        }
    }
}

/// Run the first n seeds of a property twice, in two different processes and
/// with different worker counts, and compare per-run trace hashes.
pub fn determinism_main<P: Property>(n: u64) -> i32 {
    if std::env::var("FUSIM_DET_CHILD").is_ok() {
        // child: print "i hash class" per run
        let base = base_seed();
        let stride: u64 = std::env::var("FUSIM_DET_STRIDE").unwrap().parse().unwrap();
        let off: u64 = std::env::var("FUSIM_DET_OFF").unwrap().parse().unwrap();
        let parent = PathBuf::from(std::env::var("FUSIM_DET_PARENT").unwrap());
        let lines = with_ctx::<P, Vec<String>>(parent, format!("d{off}"), true, move |ctx| {
            let mut out = vec![];
            let mut i = off;
            while i < n {
                let (_, sc) = scenario_for::<P>(base, Tier::Quick, n, i);
                let mut rep = Report::new(false);
                P::check(&sc, ctx, &mut rep);
                // probes prefixed rt_ depend on the real clock's tick and are
                // declared non-reproducible by the property itself
                let probes: BTreeMap<&str, u64> = rep.probes.iter().filter(|(k, _)| !k.starts_with("rt_")).map(|(k, v)| (*k, *v)).collect();
                out.push(format!(
                    "{} {:016x} {} {} {:?} {:?}",
                    i,
                    rep.trace.0,
                    rep.steps,
                    rep.violation.map(|v| v.class).unwrap_or_default(),
                    rep.faults,
                    probes
                ));
                i += stride;
            }
            out
        });
        for l in lines {
            println!("{l}");
        }
        return 0;
    }
    let parent = make_scratch_parent();
    let run = |workers: u64| -> BTreeMap<u64, String> {
        let mut kids = vec![];
        for off in 0..workers {
            kids.push(
                Command::new(self_exe())
                    .arg("selftest")
                    .arg("determinism")
                    .arg(P::ID)
                    .arg(n.to_string())
                    .env("FUSIM_DET_CHILD", "1")
                    .env("FUSIM_DET_STRIDE", workers.to_string())
                    .env("FUSIM_DET_OFF", off.to_string())
                    .env("FUSIM_DET_PARENT", &parent)
                    .stdout(Stdio::piped())
                    .spawn()
                    .expect("spawn"),
            );
        }
        let mut m = BTreeMap::new();
        for k in kids {
            let o = k.wait_with_output().expect("wait");
            for l in String::from_utf8_lossy(&o.stdout).lines() {
                if let Some((i, rest)) = l.split_once(' ') {
                    if let Ok(i) = i.parse::<u64>() {
                        m.insert(i, rest.to_string());
                    }
                }
            }
        }
        m
    };
    let a = run(1);
    let b = run(16);
    let c = run(5);
    sys::wipe(&parent);
    let mut bad = 0;
    for i in 0..n {
        let (x, y, z) = (a.get(&i), b.get(&i), c.get(&i));
        if x.is_none() || x != y || x != z {
            bad += 1;
            if bad <= 10 {
                println!("NONDETERMINISM property={} run={} a={:?} b={:?} c={:?}", P::ID, i, x, y, z);
            }
        }
    }
    println!(
        "determinism: property={} runs={} compared across 3 process layouts (1, 16, 5 workers): {} mismatches",
        P::ID,
        n,
        bad
    );
    if bad == 0 {
        0
    } else {
        2
    }
}
