//! find under simulation: scenario, in-process executor with simulated
//! stdout, clock, child processes and a scripted racing mutator.

use std::cell::RefCell;
use std::fs;
use std::io::Write;
use std::os::unix::fs::PermissionsExt;
use std::path::{Path, PathBuf};
use std::rc::Rc;
use std::time::{Duration, SystemTime, UNIX_EPOCH};

use findutils::find::Dependencies;
use serde::{Deserialize, Serialize};

use crate::ctx::{Ctx, RunStatus};
use crate::tree::{self, TreeSpec};
use crate::world::{Event, Log, Outcome, SharedLog, SimSink, SimWorld, WriteOp, B};

#[derive(Clone, Debug, PartialEq, Eq, Serialize, Deserialize)]
pub enum MutOp {
    /// unlink a file / link
    Unlink,
    /// remove a whole subtree
    RmTree,
    /// replace a directory (and its contents) by a regular file
    ToFile,
    /// create an empty regular file
    Create,
    /// create a directory
    Mkdir,
    /// rename to `<path>.moved`
    RenameAway,
    /// change the mode
    Chmod(u32),
}

#[derive(Clone, Debug, PartialEq, Eq, Serialize, Deserialize)]
pub enum When {
    /// right after the k-th record (0-based) has been written to the sink
    AfterRecord(usize),
    /// while the k-th child (0-based) "runs"
    AtSpawn(usize),
}

#[derive(Clone, Debug, PartialEq, Eq, Serialize, Deserialize)]
pub struct Mutation {
    pub at: When,
    pub op: MutOp,
    pub path: String,
}

#[derive(Clone, Debug, Serialize, Deserialize)]
pub struct FindScenario {
    pub tree: TreeSpec,
    /// arguments after "find"
    pub argv: Vec<String>,
    /// injected clock in nanoseconds since the epoch
    pub now_ns: Option<i64>,
    pub sink_plan: Vec<WriteOp>,
    pub outcomes: Vec<Outcome>,
    pub mutations: Vec<Mutation>,
    pub rlimit_stack: Option<u64>,
    pub env: Option<Vec<(String, String)>>,
    /// byte that ends a record in the sink (for the mutator's instants)
    pub record_delim: u8,
    pub note: String,
    /// options no statement mentions and that must not change what the statements describe:
    /// `extras_pre` go first on the command line (-O1..3), `extras_global` right after the
    /// starting points (-noleaf, -xdev, -mount, -regextype T)
    #[serde(default)]
    pub extras_pre: Vec<String>,
    #[serde(default)]
    pub extras_global: Vec<String>,
    /// give the starting points through `-files0-from FILE` instead of the command line
    /// (same names, same order); `files0_empty_after` adds a zero-length name after that many
    /// names, which find must diagnose and skip without dropping the names that follow
    #[serde(default)]
    pub starts_via_file: bool,
    #[serde(default)]
    pub files0_empty_after: Option<usize>,
    /// the last name in the -files0-from list is not followed by a NUL
    #[serde(default)]
    pub files0_no_final_nul: bool,
    /// the process environment of the run (see `crate::ambient`)
    #[serde(default)]
    pub ambient: crate::ambient::Ambient,
    /// children are real processes: every `CMD`/`CMD2` on the command line becomes
    /// `simchild LOG SCRIPT` (it logs what it received and where it ran and ends as `outcomes`
    /// says); after the run the log is checked against what the seam recorded and the spawn
    /// events are rewritten to what really happened
    #[serde(default)]
    pub real_children: bool,
    /// find runs in a working directory whose absolute path is about this many bytes long
    /// (beyond PATH_MAX is possible: the property's check enters it step by step)
    #[serde(default)]
    pub long_cwd: Option<usize>,
    /// find's working directory is this directory of the tree instead of the directory the
    /// tree stands in (the command line's paths are then relative to it)
    #[serde(default)]
    pub cwd_sub: Option<String>,
}

/// Where the list of starting points is written (relative to find's working directory).
pub const STARTS_FILE: &str = "../fusim-starting-points";

impl FindScenario {
    pub fn new(tree: TreeSpec, argv: Vec<String>) -> FindScenario {
        FindScenario {
            tree,
            argv,
            now_ns: None,
            sink_plan: vec![],
            outcomes: vec![],
            mutations: vec![],
            rlimit_stack: None,
            env: None,
            record_delim: 0,
            note: String::new(),
            extras_pre: vec![],
            extras_global: vec![],
            starts_via_file: false,
            files0_empty_after: None,
            files0_no_final_nul: false,
            ambient: Default::default(),
            real_children: false,
            long_cwd: None,
            cwd_sub: None,
        }
    }

    /// (leading flags, starting points, rest) of `argv`, split the way find's parse_args does.
    fn split_argv(&self) -> (Vec<String>, Vec<String>, Vec<String>) {
        let mut i = 0;
        let mut flags = vec![];
        while i < self.argv.len() && matches!(self.argv[i].as_str(), "-H" | "-L" | "-P" | "-O0" | "-O1" | "-O2" | "-O3") {
            flags.push(self.argv[i].clone());
            i += 1;
        }
        let mut starts = vec![];
        while i < self.argv.len() {
            let a = self.argv[i].as_str();
            if (a.starts_with('-') && a != "-") || a == "!" || a == "(" {
                break;
            }
            starts.push(self.argv[i].clone());
            i += 1;
        }
        (flags, starts, self.argv[i..].to_vec())
    }

    /// Content of the -files0-from file, when the starting points go through one.
    pub fn starts_file_content(&self) -> Option<Vec<u8>> {
        if !self.starts_via_file {
            return None;
        }
        let (_, starts, _) = self.split_argv();
        if starts.is_empty() {
            return None;
        }
        let mut out = vec![];
        for (k, s) in starts.iter().enumerate() {
            if self.files0_empty_after == Some(k) {
                out.push(0);
            }
            out.extend_from_slice(s.as_bytes());
            out.push(0);
        }
        if self.files0_no_final_nul && self.files0_empty_after != Some(starts.len()) {
            out.pop();
        }
        Some(out)
    }

    /// `argv` with the neutral extras put where find expects them, and the starting points
    /// replaced by `-files0-from FILE` when they go through a file.
    pub fn full_argv(&self) -> Vec<String> {
        if self.extras_pre.is_empty() && self.extras_global.is_empty() && !self.starts_via_file {
            return self.argv.clone();
        }
        let (flags, starts, rest) = self.split_argv();
        let mut out: Vec<String> = self.extras_pre.clone();
        out.extend(flags);
        if self.starts_via_file && !starts.is_empty() {
            out.push("-files0-from".into());
            out.push(STARTS_FILE.into());
        } else {
            out.extend(starts);
        }
        out.extend(self.extras_global.iter().cloned());
        out.extend(rest);
        out
    }

    /// Draw the neutral extras. `xdev`: -xdev/-mount may be used (not where links loop or
    /// directories are unreadable: walkdir's same_file_system stats through links and turns
    /// ELOOP/EACCES into walk errors, which no claimed statement speaks about).
    pub fn gen_extras(&mut self, rng: &mut crate::rng::Rng, xdev: bool) {
        if rng.chance(1, 8) {
            self.extras_pre.push(rng.pick(&["-O1", "-O2", "-O3", "-O0"]).to_string());
        }
        if rng.chance(1, 8) {
            self.extras_global.push("-noleaf".into());
        }
        if rng.chance(1, 8) && xdev {
            self.extras_global.push(rng.pick(&["-xdev", "-mount"]).to_string());
        }
        if rng.chance(1, 12) {
            self.extras_global.push("-regextype".into());
            self.extras_global.push(rng.pick(&["posix-extended", "emacs", "grep"]).to_string());
        }
        self.gen_ambient(rng);
    }

    /// Draw the process environment of the run: variables nobody should listen to, and a
    /// terminal as descriptor 1. (Not where the environment's size is part of the scenario.)
    pub fn gen_ambient(&mut self, rng: &mut crate::rng::Rng) {
        let env = crate::ambient::Ambient::gen_env(rng, 6);
        let tty = rng.chance(1, 10);
        let closed_pipe = !tty && rng.chance(1, 12);
        if self.env.is_none() && self.rlimit_stack.is_none() {
            self.ambient.env = env;
        }
        self.ambient.stdout_tty = tty;
        self.ambient.stdout_closed_pipe = closed_pipe;
    }
}

/// A clock decades away from the wall clock: code that reads the real clock
/// instead of the seam becomes visible.
pub const DEFAULT_NOW_NS: i64 = 4_102_444_800_000_000_000; // 2100-01-01

pub struct SimDeps {
    pub out: RefCell<SimSink>,
    pub now: SystemTime,
}

impl Dependencies for SimDeps {
    fn get_output(&self) -> &RefCell<dyn Write> {
        &self.out
    }
    fn now(&self) -> SystemTime {
        self.now
    }
}

pub fn ns_to_systime(ns: i64) -> SystemTime {
    if ns >= 0 {
        UNIX_EPOCH + Duration::new((ns / 1_000_000_000) as u64, (ns % 1_000_000_000) as u32)
    } else {
        UNIX_EPOCH - Duration::new((-ns / 1_000_000_000) as u64, (-ns % 1_000_000_000) as u32)
    }
}

pub struct FindObs {
    /// real children: the first thing their log contradicts the seam's record in
    pub real_mismatch: Option<String>,
    /// what `account_find` reports about the process environment of the run
    pub ambient: crate::ambient::Ambient,
    pub status: RunStatus,
    pub log: Log,
    pub stderr: Vec<u8>,
    /// the directory the tree was built in (cwd of the run)
    pub root: PathBuf,
}

impl FindObs {
    /// Records written to the sink, split at `delim` (an unterminated tail is
    /// returned separately).
    pub fn records(&self, delim: u8) -> (Vec<Vec<u8>>, Vec<u8>) {
        let mut recs = vec![];
        let mut cur = vec![];
        for &b in &self.log.sink {
            if b == delim {
                recs.push(std::mem::take(&mut cur));
            } else {
                cur.push(b);
            }
        }
        (recs, cur)
    }
}

fn apply_mutation(root: &Path, m: &Mutation) -> bool {
    let p = root.join(&m.path);
    match &m.op {
        MutOp::Unlink => fs::remove_file(&p).is_ok(),
        MutOp::RmTree => {
            let existed = fs::symlink_metadata(&p).is_ok();
            crate::sys::wipe(&p);
            existed
        }
        MutOp::ToFile => {
            crate::sys::wipe(&p);
            fs::write(&p, b"was-a-directory").is_ok()
        }
        MutOp::Create => fs::write(&p, b"").is_ok(),
        MutOp::Mkdir => fs::create_dir(&p).is_ok(),
        MutOp::RenameAway => {
            let mut q = p.clone().into_os_string();
            q.push(".moved");
            fs::rename(&p, PathBuf::from(q)).is_ok()
        }
        MutOp::Chmod(mode) => fs::set_permissions(&p, fs::Permissions::from_mode(*mode)).is_ok(),
    }
}

struct MutState {
    root: PathBuf,
    pending: Vec<Mutation>,
    scanned: usize,
    records: usize,
    delim: u8,
}

impl MutState {
    fn fire(&mut self, log: &SharedLog, when: &When) {
        let mut i = 0;
        while i < self.pending.len() {
            if self.pending[i].at == *when {
                let m = self.pending.remove(i);
                let ok = apply_mutation(&self.root, &m);
                log.borrow_mut().events.push(Event::Mutate {
                    op: format!("{:?}", m.op),
                    path: B(m.path.as_bytes().to_vec()),
                    ok,
                });
            } else {
                i += 1;
            }
        }
    }

    fn after_write(&mut self, log: &SharedLog) {
        // count records completed by the bytes accepted so far
        let new_records: Vec<usize> = {
            let l = log.borrow();
            let mut v = vec![];
            for &b in &l.sink[self.scanned..] {
                if b == self.delim {
                    v.push(self.records + v.len());
                }
            }
            self.scanned = l.sink.len();
            v
        };
        for k in new_records {
            self.records = k + 1;
            if !self.pending.is_empty() {
                self.fire(log, &When::AfterRecord(k));
            }
        }
    }
}

pub const SINK_BUDGET: usize = 2_000_000;
pub const FIND_SPAWN_BUDGET: usize = 200_000;

/// Build the tree in `<scratch>/<sub>`, chdir there, run find_main.
pub fn run_find_in(sc: &FindScenario, ctx: &mut Ctx, sub: &str) -> FindObs {
    let root = ctx.scratch.join(sub);
    let _ = std::env::set_current_dir(&ctx.scratch);
    crate::sys::wipe(&root);
    fs::create_dir_all(&root).expect("scratch root");
    if let Err(e) = tree::build(&root, &sc.tree) {
        // a tree that cannot be built is a generator bug, not a verdict
        let mut log = Log::default();
        log.budget_exhausted = false;
        return FindObs {
            real_mismatch: None,
            ambient: Default::default(),
            status: RunStatus::Panic(format!("HARNESS: cannot build tree: {e}")),
            log,
            stderr: vec![],
            root,
        };
    }
    run_find_prebuilt(sc, ctx, root)
}

pub fn run_find(sc: &FindScenario, ctx: &mut Ctx) -> FindObs {
    run_find_in(sc, ctx, "A")
}

/// The list of starting points next to the tree, when the scenario uses one; otherwise nothing
/// of an earlier run may be left there: a link that leads out of the tree (`../..`) under a
/// follow mode finds whatever is next to it. Properties that walk the tree themselves before
/// the run call this first, so that their walk and find's see the same things.
pub fn prepare_side_files(sc: &FindScenario, root: &Path) {
    if let Some(list) = sc.starts_file_content() {
        let _ = fs::write(root.join(STARTS_FILE), list);
    } else if !sc.argv.iter().any(|a| a == "-files0-from") {
        let _ = fs::remove_file(root.join(STARTS_FILE));
    }
}

/// Run find_main with cwd = `root` (tree already there).
pub fn run_find_prebuilt(sc: &FindScenario, ctx: &mut Ctx, root: PathBuf) -> FindObs {
    ctx.prepare_process(sc.rlimit_stack, sc.env.as_deref());
    if !root.as_os_str().is_empty() {
        // (an empty root: the process is already there, and paths are used as they are)
        std::env::set_current_dir(&root).expect("chdir scratch root");
    }
    prepare_side_files(sc, &root);
    let cwd = match &sc.cwd_sub {
        Some(sub) => root.join(sub),
        None => root.clone(),
    };
    if sc.cwd_sub.is_some() {
        let _ = std::env::set_current_dir(&cwd);
    }
    let log: SharedLog = Rc::new(RefCell::new(Log::default()));
    let mstate = Rc::new(RefCell::new(MutState {
        // (inside the tree the mutator uses the same relative names as find does: the working
        // directory may be removed during the run, and absolute paths through it then fail)
        root: if sc.cwd_sub.is_some() { PathBuf::from(".") } else { cwd.clone() },
        pending: sc.mutations.clone(),
        scanned: 0,
        records: 0,
        delim: sc.record_delim,
    }));
    let ms1 = mstate.clone();
    let sink = SimSink {
        log: log.clone(),
        plan: sc.sink_plan.clone(),
        step: 0,
        budget: SINK_BUDGET,
        hook: Some(Box::new(move |l: &SharedLog| ms1.borrow_mut().after_write(l))),
    };
    let deps = SimDeps {
        out: RefCell::new(sink),
        now: ns_to_systime(sc.now_ns.unwrap_or(DEFAULT_NOW_NS)),
    };
    let ms2 = mstate.clone();
    let log2 = log.clone();
    // real children: the placeholder commands become simchild with its log and script
    let real_files = if sc.real_children {
        // (the children inherit descriptor 0 of this process: an end of file, always)
        crate::sys::stdin_devnull();
        let dir = ctx.scratch.join("fx");
        crate::sys::wipe(&dir);
        let _ = fs::create_dir_all(&dir);
        let lp = dir.join("child.log");
        let sp = dir.join("child.script");
        let mut script = String::new();
        for o in &sc.outcomes {
            match o {
                Outcome::Exit(c) => script.push_str(&format!("exit {c}\n")),
                Outcome::Signal(s, _) => script.push_str(&format!("signal {s}\n")),
                _ => script.push_str("exit 0\n"),
            }
        }
        let _ = fs::write(&sp, script);
        Some((lp, sp))
    } else {
        None
    };
    let world = SimWorld {
        log: log.clone(),
        outcomes: if sc.real_children { vec![] } else { sc.outcomes.clone() },
        default_outcome: if sc.real_children { Outcome::Real } else { Outcome::Exit(0) },
        spawn_count: 0,
        spawn_budget: FIND_SPAWN_BUDGET,
        input: None,
        on_spawn: Some(Box::new(move |k, _req| {
            ms2.borrow_mut().fire(&log2, &When::AtSpawn(k));
        })),
    };
    let mut argv = vec!["find".to_string()];
    for a in sc.full_argv() {
        match &real_files {
            Some((lp, sp)) if a == "CMD" || a == "CMD2" => {
                argv.push(ctx.simchild.to_string_lossy().into_owned());
                argv.push(lp.to_string_lossy().into_owned());
                argv.push(sp.to_string_lossy().into_owned());
            }
            _ => argv.push(a),
        }
    }
    let mut ambient = sc.ambient.clone();
    if sc.env.is_some() || sc.rlimit_stack.is_some() {
        // the size of the environment is part of these scenarios
        ambient.env.clear();
    }
    let guard = ambient.enter();
    let (status, stderr) = if ambient.env.iter().any(|(k, _)| k == "TZ") {
        // libraries cache the time zone per thread for a second of real time: with TZ set, find
        // runs on a thread of its own, so that what it sees is this run's TZ (as a fresh process
        // replaying the scenario will) and never an earlier run's
        struct AssertSend<T>(T);
        unsafe impl<T> Send for AssertSend<T> {}
        let mut out = None;
        let pack = AssertSend((&mut *ctx, &mut out, world, argv, deps));
        std::thread::scope(|s| {
            std::thread::Builder::new()
                .stack_size(64 << 20)
                .spawn_scoped(s, move || {
                    let pack = pack;
                    let AssertSend((ctx_ref, out_ref, world, argv, deps)) = pack;
                    *out_ref = Some(ctx_ref.run_guarded(Box::new(world), move || {
                        let refs: Vec<&str> = argv.iter().map(|s| s.as_str()).collect();
                        findutils::find::find_main(&refs, &deps)
                    }));
                })
                .expect("thread for a run with TZ")
                .join()
                .expect("thread for a run with TZ ended");
        });
        out.expect("run result")
    } else {
        ctx.run_guarded(Box::new(world), move || {
            let refs: Vec<&str> = argv.iter().map(|s| s.as_str()).collect();
            findutils::find::find_main(&refs, &deps)
        })
    };
    drop(guard);
    // real children: compare their log with the seam's record while still in find's working
    // directory (the directories are looked up the way the children reached them)
    let mut real_mismatch = None;
    if let Some((lp, _)) = &real_files {
        let recs = crate::xargs::parse_child_records(&fs::read(lp).unwrap_or_default());
        real_mismatch = reconcile_real_children(&mut log.borrow_mut(), &recs, &ctx.simchild);
    }
    // (a relative root - the long working directory - is remembered by its absolute name while
    // the process is still there, as far as it has one: the oracles compare directories with it)
    let root = if root.is_relative() { std::env::current_dir().unwrap_or(root) } else { root };
    let _ = std::env::set_current_dir(&ctx.scratch);
    drop(mstate);
    let log = match Rc::try_unwrap(log) {
        Ok(c) => c.into_inner(),
        Err(rc) => std::mem::take(&mut *rc.borrow_mut()),
    };
    FindObs {
        real_mismatch,
        ambient,
        status,
        log,
        stderr,
        root,
    }
}

/// Real children: rewrite every spawn event to what really happened (`simchild LOG SCRIPT`
/// back to the placeholder, the outcome from the real wait status) and compare the children's
/// own log with the seam's record: same arguments, and a working directory that is the
/// directory the request named (by device and inode: it may lie beyond PATH_MAX).
fn reconcile_real_children(log: &mut Log, recs: &[crate::xargs::ChildRec], simchild: &Path) -> Option<String> {
    use std::os::unix::ffi::OsStrExt;
    use std::os::unix::fs::MetadataExt;
    let mut mismatch: Option<String> = None;
    let mut k = 0usize; // children that really started
    for ev in log.events.iter_mut() {
        let Event::Spawn { argv, cwd, outcome, real_status } = ev else { continue };
        let Some(st) = *real_status else { continue };
        let is_simchild = argv.first().map(|a| a.0 == simchild.as_os_str().as_bytes()).unwrap_or(false) && argv.len() >= 3;
        if is_simchild {
            argv.drain(0..3);
            argv.insert(0, B(b"CMD".to_vec()));
        }
        if st < 0 {
            *outcome = Outcome::SpawnErr(-st);
            continue;
        }
        *outcome = if libc::WIFEXITED(st) { Outcome::Exit(libc::WEXITSTATUS(st)) } else { Outcome::Signal(libc::WTERMSIG(st), false) };
        if !is_simchild {
            continue;
        }
        let Some(rec) = recs.get(k) else {
            mismatch.get_or_insert(format!("child #{k} started but left no record in its log"));
            k += 1;
            continue;
        };
        k += 1;
        let want: Vec<&[u8]> = argv.iter().skip(1).map(|a| a.0.as_slice()).collect();
        let got: Vec<&[u8]> = rec.args.iter().map(|a| a.as_slice()).collect();
        if want != got {
            mismatch.get_or_insert(format!("child #{} received {} arguments, the seam recorded {}", k - 1, got.len(), want.len()));
        }
        let dir = match cwd {
            Some(c) => PathBuf::from(std::ffi::OsStr::from_bytes(&c.0)),
            None => PathBuf::from("."),
        };
        match (fs::metadata(&dir), rec.dir) {
            (Ok(m), Some((d, i))) => {
                if (m.dev(), m.ino()) != (d, i) {
                    mismatch.get_or_insert(format!("child #{} ran in another directory than [{}]", k - 1, dir.display()));
                }
            }
            (Err(e), _) => {
                mismatch.get_or_insert(format!("the directory [{}] requested for child #{} cannot be looked up: {e}", dir.display(), k - 1));
            }
            (_, None) => {
                mismatch.get_or_insert(format!("child #{} could not identify its working directory", k - 1));
            }
        }
    }
    if mismatch.is_none() && recs.len() != k {
        mismatch = Some(format!("{} children left a record, {k} were started through the seam", recs.len()));
    }
    mismatch
}

/// A working directory whose absolute path is about `len` bytes long, below `<scratch>/L`,
/// entered step by step (no single call sees a path beyond PATH_MAX). The process is inside
/// it when this returns.
pub fn enter_long_cwd(ctx: &Ctx, len: usize) -> std::io::Result<()> {
    let base = ctx.scratch.join("L");
    crate::sys::wipe_deep(&ctx.scratch, std::ffi::OsStr::new("L"));
    fs::create_dir_all(&base)?;
    std::env::set_current_dir(&base)?;
    let mut have = base.as_os_str().len();
    while have < len {
        let k = (len - have).saturating_sub(1).clamp(1, 250);
        let name = "w".repeat(k);
        fs::create_dir(&name)?;
        std::env::set_current_dir(&name)?;
        have += k + 1;
    }
    Ok(())
}

/// Put the scenario's tree where the run will happen: `<scratch>/A`, or the long working
/// directory when the scenario asks for one (the process is then inside it and the returned
/// root is `.`). `leave_long_cwd` afterwards in the second case.
pub fn place_tree(sc: &FindScenario, ctx: &Ctx) -> Result<PathBuf, String> {
    let _ = std::env::set_current_dir(&ctx.scratch);
    let root = match sc.long_cwd {
        Some(len) => {
            if let Err(e) = enter_long_cwd(ctx, len) {
                leave_long_cwd(ctx);
                return Err(format!("cannot enter a working directory of {len} bytes: {e}"));
            }
            PathBuf::from(".")
        }
        None => {
            let root = ctx.scratch.join("A");
            crate::sys::wipe(&root);
            fs::create_dir_all(&root).map_err(|e| e.to_string())?;
            root
        }
    };
    if let Err(e) = tree::build(&root, &sc.tree) {
        if sc.long_cwd.is_some() {
            leave_long_cwd(ctx);
        }
        return Err(format!("cannot build tree: {e}"));
    }
    Ok(root)
}

/// What a run with real children owes beyond the property's own oracle: the children's log
/// agrees with the seam's record, and every invocation could be started (the children are
/// there and executable: a refusal is find's own doing). Returns (class suffix, detail).
pub fn judge_real_children(sc: &FindScenario, obs: &FindObs) -> Option<(&'static str, String)> {
    if !sc.real_children {
        return None;
    }
    let argv = &sc.argv[..sc.argv.len().min(12)];
    if let Some(m) = &obs.real_mismatch {
        return Some(("real-children-differ", format!("argv {argv:?}: {m}")));
    }
    for ev in &obs.log.events {
        if let Event::Spawn { outcome: Outcome::SpawnErr(e), cwd, argv: child, .. } = ev {
            return Some((
                "invocation-could-not-be-started",
                format!(
                    "argv {argv:?} (working directory of {:?} bytes): an invocation with {} arguments and working directory {:?} could not be started: {}",
                    sc.long_cwd,
                    child.len(),
                    cwd.as_ref().map(|c| crate::sys::show(&c.0[..c.0.len().min(80)])),
                    std::io::Error::from_raw_os_error(*e)
                ),
            ));
        }
    }
    None
}

/// Back out of the long working directory and remove it.
pub fn leave_long_cwd(ctx: &Ctx) {
    let _ = std::env::set_current_dir(&ctx.scratch);
    crate::sys::wipe_deep(&ctx.scratch, std::ffi::OsStr::new("L"));
}

/// Fold a find run's events into the abstract trace and the fault counters.
pub fn account_find(obs: &FindObs, rep: &mut crate::prop::Report) {
    use crate::rng::bucket;
    for ev in &obs.log.events {
        match ev {
            Event::Write { len, accepted } => {
                rep.steps += 1;
                match accepted {
                    Some(n) if *n < *len => {
                        rep.fault("short_write");
                        rep.trace.byte(11);
                    }
                    Some(_) => rep.trace.byte(10),
                    None => {
                        rep.fault("write_eintr");
                        rep.trace.byte(12);
                    }
                }
            }
            Event::Flush => {}
            Event::Spawn { argv, outcome, .. } => {
                rep.steps += 1;
                rep.trace.byte(5);
                rep.trace.u64(bucket(argv.len()));
                rep.trace.str(outcome.class());
                match outcome.class() {
                    "exit0" | "real" => {}
                    "exitN" | "exit255" => rep.fault("child_exit_nonzero"),
                    "signal" => rep.fault("child_killed_by_signal"),
                    "enoent" => rep.fault("spawn_enoent"),
                    _ => rep.fault("spawn_error"),
                }
            }
            Event::Mutate { op, ok, .. } => {
                rep.trace.byte(13);
                rep.trace.str(op);
                if *ok {
                    rep.fault("racing_mutation_applied");
                }
            }
            Event::Read { .. } => {}
        }
    }
    match &obs.status {
        RunStatus::Exit(c) => {
            rep.trace.byte(6);
            rep.trace.u64(*c as u64);
        }
        RunStatus::Panic(_) => rep.trace.byte(7),
    }
    if !obs.ambient.env.is_empty() {
        rep.probe("environment_variables_nobody_should_listen_to");
    }
    if obs.ambient.stdout_tty && crate::ambient::tty_available() {
        rep.probe("descriptor_1_is_a_terminal");
    }
    if obs.ambient.nofile_headroom.is_some() {
        rep.probe("low_descriptor_limit");
    }
    if obs.ambient.stdout_closed_pipe {
        rep.probe("descriptor_1_is_a_pipe_nobody_reads");
    }
}
