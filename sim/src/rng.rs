//! The only source of randomness in the simulator: xoshiro256** seeded through
//! SplitMix64 from one integer. Generators draw from it in a fixed order;
//! executing a scenario never touches it.

#[derive(Clone, Debug)]
pub struct Rng {
    s: [u64; 4],
}

pub fn splitmix(x: &mut u64) -> u64 {
    *x = x.wrapping_add(0x9E37_79B9_7F4A_7C15);
    let mut z = *x;
    z = (z ^ (z >> 30)).wrapping_mul(0xBF58_476D_1CE4_E5B9);
    z = (z ^ (z >> 27)).wrapping_mul(0x94D0_49BB_1331_11EB);
    z ^ (z >> 31)
}

/// Seed of run `i` of property `prop` under base seed `base`.
pub fn run_seed(base: u64, prop: &str, tier: &str, i: u64) -> u64 {
    let mut h: u64 = base ^ 0xF1D0_5EED_0000_0000;
    for b in prop.bytes().chain(tier.bytes()) {
        h = (h ^ b as u64).wrapping_mul(0x0000_0100_0000_01B3);
    }
    let mut x = h ^ i.wrapping_mul(0xD6E8_FEB8_6659_FD93);
    let a = splitmix(&mut x);
    let b = splitmix(&mut x);
    (a ^ b.rotate_left(17)) & 0x7FFF_FFFF_FFFF_FFFF
}

impl Rng {
    pub fn new(seed: u64) -> Self {
        let mut x = seed;
        let s = [
            splitmix(&mut x),
            splitmix(&mut x),
            splitmix(&mut x),
            splitmix(&mut x),
        ];
        Rng { s }
    }

    pub fn next(&mut self) -> u64 {
        let r = self.s[1].wrapping_mul(5).rotate_left(7).wrapping_mul(9);
        let t = self.s[1] << 17;
        self.s[2] ^= self.s[0];
        self.s[3] ^= self.s[1];
        self.s[1] ^= self.s[2];
        self.s[0] ^= self.s[3];
        self.s[2] ^= t;
        self.s[3] = self.s[3].rotate_left(45);
        r
    }

    /// Uniform in 0..n (n > 0).
    pub fn below(&mut self, n: u64) -> u64 {
        debug_assert!(n > 0);
        // multiply-shift; bias is irrelevant for test generation
        ((self.next() as u128 * n as u128) >> 64) as u64
    }

    pub fn usize_below(&mut self, n: usize) -> usize {
        self.below(n as u64) as usize
    }

    /// Uniform in lo..=hi.
    pub fn range(&mut self, lo: u64, hi: u64) -> u64 {
        lo + self.below(hi - lo + 1)
    }

    pub fn urange(&mut self, lo: usize, hi: usize) -> usize {
        self.range(lo as u64, hi as u64) as usize
    }

    pub fn irange(&mut self, lo: i64, hi: i64) -> i64 {
        lo + self.below((hi - lo + 1) as u64) as i64
    }

    /// True with probability num/den.
    pub fn chance(&mut self, num: u64, den: u64) -> bool {
        self.below(den) < num
    }

    pub fn pick<'a, T>(&mut self, xs: &'a [T]) -> &'a T {
        &xs[self.usize_below(xs.len())]
    }

    /// Index drawn according to integer weights.
    pub fn weighted(&mut self, weights: &[u64]) -> usize {
        let total: u64 = weights.iter().sum();
        let mut x = self.below(total);
        for (i, w) in weights.iter().enumerate() {
            if x < *w {
                return i;
            }
            x -= *w;
        }
        weights.len() - 1
    }

    pub fn shuffle<T>(&mut self, xs: &mut [T]) {
        for i in (1..xs.len()).rev() {
            let j = self.usize_below(i + 1);
            xs.swap(i, j);
        }
    }

    /// A small number biased towards the low end: geometric-ish in lo..=hi.
    pub fn small(&mut self, lo: usize, hi: usize) -> usize {
        let mut v = lo;
        while v < hi && self.chance(2, 3) {
            v += 1;
        }
        if self.chance(1, 8) {
            self.urange(lo, hi)
        } else {
            v
        }
    }
}

/// FNV-1a, used for abstract-trace hashes (deterministic across processes).
#[derive(Clone, Copy)]
pub struct Fnv(pub u64);

impl Fnv {
    pub fn new() -> Self {
        Fnv(0xcbf2_9ce4_8422_2325)
    }
    pub fn byte(&mut self, b: u8) {
        self.0 = (self.0 ^ b as u64).wrapping_mul(0x0000_0100_0000_01B3);
    }
    pub fn bytes(&mut self, bs: &[u8]) {
        for b in bs {
            self.byte(*b);
        }
        self.byte(0xff);
    }
    pub fn u64(&mut self, v: u64) {
        for b in v.to_le_bytes() {
            self.byte(b);
        }
    }
    pub fn str(&mut self, s: &str) {
        self.bytes(s.as_bytes());
    }
}

/// Size bucket used in abstract traces: 0,1,2,3-4,5-8,... (log2 buckets).
pub fn bucket(n: usize) -> u64 {
    if n < 3 {
        n as u64
    } else {
        2 + (usize::BITS - (n - 1).leading_zeros()) as u64
    }
}
