/* A system-call seam for the real find/xargs executables (LD_PRELOAD): short counts and
 * EINTR on their own standard input and standard output, by a plan taken from the
 * environment. Only processes named "find" or "xargs" are touched; their children (and
 * everything on other descriptors) see the real calls.
 *
 *   FUSIM_SHIM_WRITE=n        every write(1, ...) takes at most n bytes
 *   FUSIM_SHIM_WRITE_EINTR=k  every k-th write(1, ...) fails with EINTR before anything is written
 *   FUSIM_SHIM_READ=n         every read(0, ...) returns at most n bytes
 *   FUSIM_SHIM_READ_EINTR=k   every k-th read(0, ...) fails with EINTR before anything is read
 */
#define _GNU_SOURCE
#include <dlfcn.h>
#include <errno.h>
#include <stdlib.h>
#include <string.h>
#include <sys/types.h>
#include <unistd.h>

extern char *program_invocation_short_name;

static ssize_t (*real_write)(int, const void *, size_t);
static ssize_t (*real_read)(int, void *, size_t);
static long w_max = -1, w_eintr = -1, r_max = -1, r_eintr = -1;
static unsigned long w_calls, r_calls;
static int ready, mine;

static long env_num(const char *k) {
    const char *v = getenv(k);
    if (!v || !*v) return -1;
    long n = strtol(v, 0, 10);
    return n > 0 ? n : -1;
}

static void init(void) {
    if (ready) return;
    real_write = (ssize_t(*)(int, const void *, size_t))dlsym(RTLD_NEXT, "write");
    real_read = (ssize_t(*)(int, void *, size_t))dlsym(RTLD_NEXT, "read");
    const char *n = program_invocation_short_name;
    mine = n && (!strcmp(n, "find") || !strcmp(n, "xargs"));
    if (mine) {
        w_max = env_num("FUSIM_SHIM_WRITE");
        w_eintr = env_num("FUSIM_SHIM_WRITE_EINTR");
        r_max = env_num("FUSIM_SHIM_READ");
        r_eintr = env_num("FUSIM_SHIM_READ_EINTR");
    }
    ready = 1;
}

ssize_t write(int fd, const void *buf, size_t len) {
    init();
    if (mine && fd == 1 && len > 0) {
        w_calls++;
        if (w_eintr > 0 && w_calls % (unsigned long)w_eintr == 0) {
            errno = EINTR;
            return -1;
        }
        if (w_max > 0 && len > (size_t)w_max) len = (size_t)w_max;
    }
    return real_write(fd, buf, len);
}

ssize_t read(int fd, void *buf, size_t len) {
    init();
    if (mine && fd == 0 && len > 0) {
        r_calls++;
        if (r_eintr > 0 && r_calls % (unsigned long)r_eintr == 0) {
            errno = EINTR;
            return -1;
        }
        if (r_max > 0 && len > (size_t)r_max) len = (size_t)r_max;
    }
    return real_read(fd, buf, len);
}
